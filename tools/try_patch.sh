#!/bin/bash
# usage: tools/try_patch.sh <patch.diff> <command...> : apply a patch to a scratch worktree of /repo HEAD and run a command against it
p=$(realpath $1); shift
wt=$(mktemp -d /tmp/vfwt-XXXXXX)
git -C /repo worktree add --detach -q "$wt" HEAD
(cd $wt && git apply "$p") || { echo "PATCH DOES NOT APPLY"; git -C /repo worktree remove --force "$wt"; exit 3; }
VERIF_REPO="$wt" "$@"
rc=$?
git -C /repo worktree remove --force "$wt"
exit $rc
