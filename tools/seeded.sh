#!/bin/bash
# usage: tools/seeded.sh <PROP> <A|B|..> "<checks to run, e.g. C10 C04>" [srcdir] [name under /verif/seeded, default <X>]
# Confirms a seeded change delivered by a sub-agent (demo exits 0 on the clean tree and 1 with
# the change; every test passing at HEAD still passes) in a scratch worktree, runs the given
# quick checks against the changed worktree (VERIF_REPO), stores everything in
# /verif/seeded/<PROP>-<X>/ and removes the worktree.
id=$1; x=$2; checks=${3:-$1}; src=${4:-/tmp/seed/out/$id}
name=${5:-$x}
wt=/tmp/seed/cf_${id}_$name; out=/verif/seeded/$id-$name; log=/tmp/seed/results/${id}_$name
mkdir -p $out $log
git -C /repo worktree remove --force $wt 2>/dev/null
git -C /repo worktree add --detach -q $wt HEAD || exit 2
cp $src/${x}_demo.py $wt/seeded_demo.py
cd $wt
/venv/bin/python seeded_demo.py > $log/demo_clean.log 2>&1; clean=$?
if ! git apply $src/${x}_patch.diff; then echo "RESULT $id-$x patch-does-not-apply"; cd /; git -C /repo worktree remove --force $wt; exit 3; fi
/venv/bin/python seeded_demo.py > $log/demo_mut.log 2>&1; mut=$?
if [ -z "$SKIP_SUITE" ]; then
  /venv/bin/python -m pytest -q -p no:cacheprovider --timeout=900 --continue-on-collection-errors --junitxml=$log/suite.xml > $log/suite.log 2>&1
  suite=$(python3 /verif/tools/check_baseline.py $log/suite.xml | head -1)
else suite="(suite skipped)"; fi
cd /verif
det=""
for c in $checks; do
  VERIF_REPO=$wt ./run.py check $c --tier ${TIER:-quick} > $log/check_$c.log 2>&1; rc=$?
  det="$det $c:rc=$rc"
done
cp $src/${x}_patch.diff $out/patch.diff; cp $src/${x}_demo.py $out/demo.py
echo "RESULT $id-$name demo_clean=$clean demo_mutant=$mut suite[$suite] checks:$det" | tee $log/RESULT
git -C /repo worktree remove --force $wt
rm -f /verif/evidence/*.scratch.json
