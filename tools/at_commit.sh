#!/bin/bash
# usage: tools/at_commit.sh <repo-commit> <command...>  — run a command against a scratch worktree of /repo
set -e
c=$1; shift
wt=$(mktemp -d /tmp/vfwt-XXXXXX)
git -C /repo worktree add --detach -q "$wt" "$c"
set +e
VERIF_REPO="$wt" "$@"
rc=$?
git -C /repo worktree remove --force "$wt"
exit $rc
