#!/usr/bin/env python3
""" Run the repository's suite (guard OFF) and compare with BASELINE.json's stable_pass list.
usage: check_baseline.py [junit.xml]   (runs the suite if no file is given) """
import os, sys, json, subprocess, tempfile
import xml.etree.ElementTree as ET

def main():
    base = json.load(open('/root/.vp/BASELINE.json'))
    if len(sys.argv) > 1:
        xml = sys.argv[1]
    else:
        xml = tempfile.mktemp(suffix='.xml')
        env = dict(os.environ)
        env.pop('MOPEPGEN_VERIF', None)
        env.pop('MOPEPGEN_VERIF_FAIL', None)
        subprocess.run(['/venv/bin/python', '-m', 'pytest', '-ra', '-q', '-p', 'no:cacheprovider',
            '--timeout=900', '--continue-on-collection-errors', f'--junitxml={xml}'],
            cwd='/repo', env=env, stdout=subprocess.DEVNULL, stderr=subprocess.DEVNULL)
    passed = set()
    for tc in ET.parse(xml).getroot().iter('testcase'):
        if not any(c.tag in ('failure', 'error', 'skipped') for c in tc):
            passed.add(f"{tc.get('classname')}::{tc.get('name')}")
    missing = [t for t in base['stable_pass'] if t not in passed]
    print(f'passed={len(passed)} baseline={len(base["stable_pass"])} baseline_missing={len(missing)}')
    for t in missing:
        print('MISSING', t)
    sys.exit(1 if missing else 0)
main()
