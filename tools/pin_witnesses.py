#!/venv/bin/python
""" usage: tools/pin_witnesses.py <witness dir>
For every open finding and every property it lists, pick the smallest harvested witness
(VERIF_WITNESS=<dir> runs) that reproduces the finding under that property's check and pin it as
replays/<ID>/known-<finding>.json; update known_findings.json (maintenance tool, not run by
the registered commands). """
import os, sys, json, glob, tempfile, importlib
from pathlib import Path
os.environ.setdefault('PYTHONHASHSEED', '0')
V = Path(__file__).resolve().parent.parent
sys.path.insert(0, str(V))
os.environ.setdefault('MOPEPGEN_VERIF', '1')
import warnings; warnings.filterwarnings('ignore')
from vf.harness import Ctx, canon

def main():
    wdir = Path(sys.argv[1])
    k = json.loads((V/'known_findings.json').read_text())
    ctx = Ctx(Path(tempfile.mkdtemp()), 'thorough')
    for f in k['open']:
        fid = f['id']
        cands = []
        for p in glob.glob(str(wdir/f'{fid}-*.json')):
            try:
                cands.append(json.loads(Path(p).read_text())['case'])
            except Exception:
                pass
        cands.sort(key=lambda c: len(canon(c)))
        rp = f.get('replay') or {}
        if not isinstance(rp, dict):
            rp = {}
        for prop in f.get('properties', []):
            if rp.get(prop) and (V/rp[prop]).exists():
                continue
            mod = importlib.import_module(f'vf.checks.{prop.lower()}')
            for case in cands[:40]:
                try:
                    out = mod.prop(json.loads(json.dumps(case)), ctx)
                except Exception:
                    continue
                if fid in out.known and not out.violation:
                    rel = f'replays/{prop}/known-{fid}.json'
                    (V/'replays'/prop).mkdir(parents=True, exist_ok=True)
                    (V/rel).write_text(json.dumps(dict(finding=fid, case=case), indent=1))
                    rp[prop] = rel
                    print('pinned', fid, prop, len(canon(case)))
                    break
            else:
                print('NO WITNESS', fid, prop, f'({len(cands)} candidates)')
        f['replay'] = rp
    (V/'known_findings.json').write_text(json.dumps(k, indent=1) + '\n')
main()
