#!/bin/bash
# usage: confirm_seeded.sh <ID> [src_dir]  — confirm a seeded change: applies to a fresh worktree at /tmp/seed/<ID>,
# demo must exit 1 with the change and 0 without, suite must keep the baseline. Prints one RESULT line.
id=$1; src=${2:-/tmp/seed/out/$id}; wt=/tmp/seed/$id
git -C /repo worktree remove --force $wt 2>/dev/null
git -C /repo worktree add --detach -q $wt HEAD || exit 2
cp $src/seeded_demo.py $wt/
cd $wt
/venv/bin/python seeded_demo.py > /tmp/seed/confirm_$id.clean.log 2>&1; clean=$?
git apply $src/seeded_patch.diff || { echo "RESULT $id patch-does-not-apply"; git -C /repo worktree remove --force $wt; exit 3; }
/venv/bin/python seeded_demo.py > /tmp/seed/confirm_$id.mut.log 2>&1; mut=$?
/venv/bin/python -m pytest -q -p no:cacheprovider --timeout=900 --junitxml=/tmp/seed/confirm_$id.xml > /tmp/seed/confirm_$id.suite.log 2>&1
base=$(python3 /verif/tools/check_baseline.py /tmp/seed/confirm_$id.xml | head -1)
tail -1 /tmp/seed/confirm_$id.suite.log > /tmp/seed/confirm_$id.suite.tail
echo "RESULT $id demo_clean_exit=$clean demo_mutant_exit=$mut suite: $(cat /tmp/seed/confirm_$id.suite.tail) | $base"
cd /; git -C /repo worktree remove --force $wt
