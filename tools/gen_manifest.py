#!/usr/bin/env python3
""" Writes /verif/MANIFEST.json from the table below (kept in one place so the manifest is
always valid and always matches the checks that exist). """
import json, os
from pathlib import Path
V = Path(__file__).resolve().parent.parent

CHECKS = {
 'C13': dict(level='exploration', design='6/C13',
    technique='property-based testing (Hypothesis): round trip against an independent GVF printer + differential index-vs-linear-scan, with stale-index fault histories',
    text='Generated GVF file sets of every record kind are written, compared with an independently printed expectation, parsed back field by field, re-written, and accessed through generated and .idx byte-offset pointers versus a linear scan; .idx files are invalidated by edits and must be rejected. Exploration, not proof: held on every generated case.',
    note='Trusts the documented GVF text format as re-implemented by the check; records are built from the attribute sets the bundled parsers emit; pointer-level access (before coordinate conversion) is compared, end-to-end access is covered by C06.'),
}

CHECKS['C11'] = dict(level='exploration', design='6/C11',
    technique='property-based testing (Hypothesis): model-based oracle (explicit index arrays) with per-annotation exhaustive position enumeration, differential on-disk vs parsed annotation over generated access sequences, GTF write/parse round trip',
    text='For generated annotations every gene/transcript position is converted in all directions and compared with explicit index arrays; sequences, ORF and Sec positions are compared with the model; the cached on-disk annotation (generated or loaded index, reduced cache sizes) must equal the fully parsed one after any access sequence; GtfIO.write -> dump_gtf must preserve all models.',
    note='Trusts the check\'s own GTF writer (GENCODE conventions; GENCODE/ENSEMBL-style UTR features) and the ORF-end rule derived from CDS/UTR features; annotation sizes are small (<=3 genes, <=3 isoforms).')
CHECKS['C10'] = dict(level='exploration', design='6/C10',
    technique='exhaustive enumeration of bounded strings per cleavage rule against an independent position-constraint enzyme model + property-based testing (Hypothesis) of the pool against a model digest over three construction paths',
    text='Rule semantics are compared exhaustively on all strings up to a bounded length over each rule\'s reduced alphabet (site iterator and with-range iterator against an independent model); canonical pools built on the fly, by generateIndex and by updateIndex for generated proteomes and settings must equal the model digest (I->L images, Met-removed forms, leading X, internal stop, cds_start_NF).',
    note='Exhaustive only for the bounded string domain stated in the evidence; enzyme tables transcribed by hand from ExPASy; mass via Bio.SeqUtils (shared).')
CV_NOTE = ('Model semantics M1-M12 of DESIGN.md (vf/cvmodel.py, no moPepGen import); <= 9-10 usable records per backbone (2^n haplotypes), transcripts <= ~300 nt; strict domain (zero tolerance): 14 common cleavage rules without the trypsin exception, GENCODE-style UTRs, non-aggressive collapse settings; extended domain (thorough): all 35 rules, exception settings, ENSEMBL-style UTRs, aggressive collapse settings, where a discrepancy is accepted only with the signature of an open finding listed in known_findings.json.')
CHECKS['C01'] = dict(level='exploration', design='6/C01',
    technique='property-based testing (Hypothesis): definitional reference model (exhaustive haplotype enumeration -> translate -> digest) as oracle, must-set inclusion L <= FASTA, plus metamorphic relation over node-collapsing parameters',
    text='For generated references and record sets of five families (small variants, multi-transcript, alternative splicing, fusion, circRNA) the definitional must-set L of variant peptides, computed by an independent model over all mutually compatible record subsets, must be contained in the callVariant FASTA, and the FASTA sequence set must not change under other node-collapsing parameters.',
    note=CV_NOTE)
CHECKS['C02'] = dict(level='exploration', design='6/C02',
    technique='property-based testing (Hypothesis): per-peptide realizability against the model (header entry as witness first, full may-set enumeration as fall-back), subset relation between limited/retried and unlimited runs, fault injection of TimeoutError into the retry ladder',
    text='Every sequence of every run (unlimited, with binding complexity limits, with aggressive and mild collapse settings, after 1-3 injected timeouts) must be a digestion product of some compatible haplotype of a backbone under the liberal reading of the model; limited/retried runs must be subsets of the unlimited run.',
    note=CV_NOTE + ' Timeouts are injected (first k invocations of the per-transcript worker raise TimeoutError), threads=1.')
CHECKS['C03'] = dict(level='exploration', design='6/C03',
    technique='property-based testing (Hypothesis): every (peptide, header entry) pair re-derived by the reference model from exactly the named records; uniqueness invariant over the whole FASTA',
    text='Each header entry is parsed with an independent grammar; its ids must exist for the backbone, be mutually compatible and, applied alone, reproduce the peptide as a digestion product (SECT/W2F/ORF forms only when named); entry strings must be unique. Known mislabel classes of the unchanged tree are accepted only with a structural signature.',
    note=CV_NOTE)
CHECKS['C04'] = dict(level='exploration', design='6/C04',
    technique='property-based testing (Hypothesis): invariants over the written FASTA files and the peptide table of the three calling commands against a model-computed canonical pool',
    text='For generated references/records and all cleavage settings the outputs of callVariant, callNovelORF and callAltTranslation are checked for canonical peptides (model pool incl. I->L), length/mass limits, alphabet, uniqueness, and the peptide table for pair equality with the FASTA and slice consistency.',
    note='Canonical pool from vf/enz.py (validated against the tool by C10); crashes of callVariant are not judged here (C01).')
CHECKS['C08'] = dict(level='exploration', design='6/C08',
    technique='property-based testing (Hypothesis): set equality (two-sided bounds L <= FASTA <= U) against a definitional ORF digest by the independent model; ORF FASTA re-derived from the transcript sequence; attribution of every peptide to its named ORF',
    text='For generated references and option sets (biotype inclusion/exclusion files, min-tx-length, coding-novel-orf, orf-assignment, w2f, all cleavage rules) the callNovelORF FASTA must contain every certain product and nothing but possible products of the ORFs (every ATG, three frames, to next stop or transcript end) of exactly the transcripts the options select, minus the model canonical pool; the ORF FASTA must list every ORF a header names, each listed ORF must start at an ATG of a selected transcript and its coordinates must translate to the listed sequence.',
    note='L/U differ only by a 1e-6 Da mass band, by W>F forms of canonical peptides, and by the reading of multi-residue cleavage windows next to the ORF ends (isolated vs. with flanking residues / stop symbol). Zero tolerance over all 35 rules and exception settings. Biotype filters are modelled on the gene biotype attribute, as the tool reads it.')
CHECKS['C09'] = dict(level='exploration', design='6/C09',
    technique='property-based testing (Hypothesis): set equality (two-sided bounds) against a definitional alt-translation digest by the independent model; every header entry replayed as a witness (named SECT / W2F events alone reproduce the peptide)',
    text='For generated references with selenoprotein transcripts, W-rich CDSs and NF tags, and the three flag combinations, the callAltTranslation FASTA must equal the model set: products of the annotated translation that arise only through termination at an annotated Sec codon and/or W>F substitution, minus plain products and the canonical pool; each header entry must name a coding transcript and events that alone reproduce the peptide.',
    note='Same L/U gaps as C08 plus the Met-removed twin of a cds_start_NF translation that happens to start with M (permitted, not demanded). Open finding C09-sect-open-tail (SECT peptides in the trailing segment of mRNA_end_NF transcripts are not reported) is tolerated by a structural signature only.')
CHECKS['C05'] = dict(level='exploration', design='6/C05',
    technique='property-based testing (Hypothesis): metamorphic relation between paired callVariant runs ordered by permissiveness (subset + attribution of every added peptide)',
    text='Pairs of runs on one generated input (up to ~25 records on up to 9 transcripts incl. AS, fusion, circRNA; complexity limits disabled, no enumeration needed): relaxing a limit, enabling SECT/W2F/coding-novel-ORF, adding a record or a GVF file must only add peptides and every added peptide must be attributable to the relaxation; restrictive switches must yield subsets whose entries belong to non-canonical backbones.',
    note='Attribution of a miscleavage relaxation uses an upper bound of the peptide\'s missed cleavages (bonds that may be cut in some context). Strict rule domain. Open finding C05-alt-translation-denylist (SECT/W2F flags remove peptides equal to alt-translation forms of reference products) and the C03 header findings are tolerated by signature only. A run stopped by the 6 s tool timeout is inconclusive.')
CHECKS['C06'] = dict(level='exploration', design='6/C06',
    technique='property-based testing (Hypothesis): differential testing of one input under generated file partitions/orders, .idx subsets, index-directory reference (in-process) and --threads 2-5 / PYTHONHASHSEED values (console entry point in fresh processes) against a baseline run',
    text='For generated multi-gene inputs with skipped transcripts, every variant run (records split over 2-4 GVFs in any order, with .idx on a subset, reference as generateIndex directory, --threads 2-5 through pathos, hash seeds 1/2/3/random) must write exactly the baseline sequence set and exit 0.',
    note='Thread counts and hash seeds are sampled; the scheduler inside pathos is not controlled (results are gathered in order). Two further probes vary nothing at all: the same command once more in a fresh process (address-space layout) and once more inside the checking process after other graphs were built (process history); both found genuine defects (c513c6d, eb6ad9f). Subprocess cost bounds the volume (quick: 64 inputs x 7 variant runs).')
CHECKS['C07'] = dict(level='fault_enumeration', design='6/C07',
    technique='fault injection through a guarded hook + exhaustive enumeration of all 2^n fault subsets per generated input (property-based generation of the inputs); compositional oracle: output(F) = union of the surviving units run alone; exit-status / no-FASTA oracle without the flag; tally oracle',
    text='For generated inputs with 2-5 processing units (main call, fusions, circRNAs on shared transcripts) every subset of units is made to fail at its entry: with --skip-failed the run must complete, tally the failures per transcript and kind, carry no entry of a failed fusion/circRNA and equal the union of the outputs of the surviving units each run alone; without the flag any failure must abort and leave no FASTA. Sampled subsets are repeated with --threads 3 through the console entry point.',
    note='Faults are raised at the entry of the three per-unit callers only (hook commit in /repo, env MOPEPGEN_VERIF=1 + MOPEPGEN_VERIF_FAIL); failures deep inside a unit and parser --skip-failed paths are not enumerated here. Per-unit reference outputs are measured on the tool itself; the anchor is the fault-free run without the flag.')
CHECKS['C12'] = dict(level='exploration', design='6/C12',
    technique='model-based testing of operation histories (dictionary model params -> pool, pool from the independent digest model): exhaustive enumeration of all histories up to length 3 (quick) / 4 (thorough) over a reduced operation alphabet + Hypothesis-generated longer histories; invariant checked after every step',
    text='Histories of generateIndex / updateIndex (with and without --force) / load / metadata-version tampering on one directory: after every step each registered parameter set must load exactly its own model pool and the saved genome, proteome, annotation and coding-transcript data; absent sets and invalid recorded versions must be refused; refused operations must leave every file byte-identical.',
    note='Alphabet of 8 parameter sets (two aliases of the same parameters); histories <= 10 steps; one small reference per history. Exhaustive only for the stated bounded alphabet and length.')
CHECKS['C18'] = dict(level='exploration', design='6/C18',
    technique='property-based testing (Hypothesis): conservation laws (each sequence exactly once, entries preserved) + independent model of the database choice for splitFasta, union law for mergeFasta, round trip through the .dict file for encodeFasta (incl. decoy-first order), cross-check summarizeFasta totals vs split sizes',
    text='Synthetic multi-entry FASTAs over a generated annotation and GVF source assignment are split (order / groups / max-groups / additional-split / wildcards), merged back, merged as overlapping halves, encoded (with decoy records in three orders) and summarized; every output is compared with an independent model of the documented behaviour.',
    note='Database choice is modelled for orders of single sources, groups and wildcard patterns (first pattern of the order that claims the source set); combination entries (A-B) in --order-source are not generated; mergeFasta --dedup-header is judged by its own rule (one entry per entry-minus-index). Groups mix only point-mutation sources or internal sources (mixing parsers summarizeFasta regards as mutually exclusive suppresses table rows). A split that does not finish within 60 s on <= 25 peptides is reported as a hang.')
CHECKS['C19'] = dict(level='exploration', design='6/C19',
    technique='property-based testing (Hypothesis): exact expected output from an independent per-entry predicate (model-based), idempotence, monotonicity in cutoff and miscleavage range (metamorphic)',
    text='Synthetic multi-entry FASTAs x expression tables (values around the cutoff, named or numbered columns, skipped lines) x flags x denylists x closed miscleavage ranges x enzymes are filtered through the CLI with --index-dir; kept peptides and kept entries must equal what the stated rule gives; re-filtering is the identity; stricter settings keep sub-collections.',
    note='Coding transcripts come from coding_transcripts.pkl; the --annotation-gtf path of filterFasta (which cannot know coding status from a plain GTF) is not exercised. Open-ended miscleavage ranges are outside the CLI\'s accepted domain.')
CHECKS['C20'] = dict(level='exploration', design='6/C20',
    technique='property-based testing (Hypothesis): invariants (targets unchanged, one decoy per target, permutation, fixed positions), exact model for the reverse method, reproducibility under a perturbed global RNG, metamorphic relation under input permutation, output-order invariant',
    text='Generated unique-sequence targets (incl. low-complexity peptides) in generated record orders x method x enzyme x fixed-position options x seed x decoy string x output order: all clauses of the statement are checked on the written FASTA.',
    note='Strict domain: no enzyme or lysn / asp-n / ntcb / thermolysin; with C-terminal cutters (thorough) a moved recognised residue is tolerated only as open finding C20-enzyme-site-offset (pinned by a stable test, not repairable).')
CHECKS['C14'] = dict(level='exploration', design='6/C14',
    technique='property-based testing (Hypothesis): semantic round trip - the emitted (POS, REF, ALT) applied to the gene sequence must equal the gene re-extracted from the chromosome carrying the generated genomic event (independent model of coordinates and strands); exact expected record set for parseREDItools from re-implemented threshold predicates',
    text='Generated genomic events (SNV, deletions, insertions in three VEP conventions, substitutions of >= 3 nt) at positions over the whole transcript span incl. its ends, exon edges and introns, on both strands, are written as VEP rows and parsed; REDItools rows with counts around every threshold are parsed; outputs are compared with the model.',
    note='Events within 2 nt of the transcript ends may be rejected or converted (if converted, correctly); events reaching beyond the transcript must be rejected. VEP alleles are taken to be on the forward genomic strand.')
CHECKS['C15'] = dict(level='exploration', design='6/C15',
    technique='property-based testing (Hypothesis): exact expected record set per row (eligible transcript pairs, thresholds, unknown genes, antisense) + semantic equality of the denoted fusion sequence with one built directly from the genomic breakpoints (independent model) + end-to-end differential against the definitional fusion digest through callVariant + tally oracle',
    text='Generated fusion rows in the STAR-Fusion, FusionCatcher and Arriba formats over generated multi-isoform references (all strand combinations, exonic / intronic / edge breakpoints, evidence around thresholds, unknown genes) are parsed; records, denoted sequences, tallies and the callVariant peptides of the parser output are compared with the model.',
    note='The three formats are taken to report the last retained donor base and the first retained acceptor base; REF of fusion records is not judged. End-to-end part uses the strict rule domain and <= 6 fusion records per case.')
CHECKS['C16'] = dict(level='exploration', design='6/C16',
    technique='property-based testing (Hypothesis): events derived from generated multi-isoform gene structures in rMATS coordinates; every emitted record for the matching transcript is applied under the documented <DEL>/<INS>/<SUB> semantics (independent model) and compared with the alternative isoform read from the genome; threshold and annotated-form oracles',
    text='For generated genes (both strands, 1-3 isoforms) one event per rMATS type (SE with annotated or novel exon, A5SS/A3SS long or short form on the strand-dependent side, MXE first/second exon, RI) with read counts around the thresholds is parsed; records for the primary transcript must reproduce the alternative isoform; none may be emitted below the thresholds or when the alternative form is annotated.',
    note='Soundness of emitted records only: the statement does not demand that every event be convertible (alternative sites of the last exon and MXE counts equal to the threshold yield no record; counted, not judged). Records are matched to events by the id the parser derives from the splice-site coordinates (A3SS records carry the prefix A5SS_ in this version). RI events where the transcript retains the intron are not generated.')
CHECKS['C17'] = dict(level='exploration', design='6/C17',
    technique='property-based testing (Hypothesis): exact expected record set (thresholds, exon / intron matching with tolerance ranges) and semantic equality of fragments, circular sequence and id with an independent strand-aware model; options go through the real argument parser',
    text='Generated CIRCexplorer2/3 rows (exon subsets, ciRNA introns shifted around the tolerance ranges, unknown blocks, read numbers / scores around thresholds) over generated annotations on both strands are parsed through the real argument parser; records, fragments, circular sequences, ids and tallies are compared with the model.',
    note='Tolerance model: start offset within --intron-start-range; end offset within --intron-end-range or the fragment ends before the downstream exon. Rows with identical back-splice coordinates are matched to records by fragment content.')
NOT_YET = {}

def main():
    props = [json.loads(l) for l in open(V/'properties.jsonl')]
    checks = []
    na = []
    for p in props:
        pid = p['id']
        if pid in CHECKS and (V/'vf'/'checks'/f'{pid.lower()}.py').exists():
            c = CHECKS[pid]
            checks.append(dict(property_id=pid,
                quick_cmd=f'./run.py check {pid} --tier quick',
                thorough_cmd=f'./run.py check {pid} --tier thorough',
                evidence_file=f'evidence/{pid}.json',
                replay_cmd_template=f'./run.py replay {pid} {{path}}',
                engine='vf',
                level_claimed=dict(category=c['level'], text=c['text'], design_ref=c['design']),
                level_note=c['note'], technique=c['technique']))
        else:
            na.append(dict(property_id=pid, reason=NOT_YET.get(pid,
                'check not built yet in this session (see DESIGN.md section 6 for the planned generator and oracle); not claimed until it exists and is calibrated')))
    hooks_commits = []
    hc = V/'hooks_commits.txt'
    if hc.exists():
        hooks_commits = [l.split()[0] for l in hc.read_text().splitlines() if l.strip()]
    m = dict(version=1,
        setup_cmd='/venv/bin/python -c "import hypothesis" 2>/dev/null || /venv/bin/pip install --no-index --find-links /opt/veriftools/wheels hypothesis',
        hooks=dict(guard='MOPEPGEN_VERIF', enable='environment variable MOPEPGEN_VERIF=1 (set by run.py; moPepGen is imported from the /repo working tree, editable install, no build step)',
            baseline_off_cmd='python3 tools/check_baseline.py', source_commits=hooks_commits, add_only=True),
        engines=[dict(name='vf', path='run.py', serves_properties=[c['property_id'] for c in checks],
            kind_free_text='Hypothesis-driven generated search over 16 forked shards with explicit oracles (independent reference model, round trips, differential and metamorphic relations, stateful machines, exhaustive enumeration of small finite domains); shrunk failures become JSON replay files')],
        checks=checks,
        notes='All checks import moPepGen from /repo\'s working tree. VERIF_SEED selects the Hypothesis seed (shard k uses seed*1000+k). Exit 0 = held, 1 = VIOLATION line printed, 2 = harness error. known_findings.json lists open findings and fixed defects.',
        not_applicable=na)
    (V/'MANIFEST.json').write_text(json.dumps(m, indent=1) + '\n')
    print('claimed', [c['property_id'] for c in checks], 'not_applicable', len(na))
main()
