#!/usr/bin/env python3
""" Re-verifies seeded changes against /repo HEAD: for each /verif/seeded/<ID>-<X>/patch.diff a
scratch worktree of HEAD is created, the patch applied, and the quick tier of the listed checks
run against it (VERIF_REPO). Return codes are stored in /verif/seeded/results.json, which
tools/seeded_meta.py turns into meta.json / INDEX.md.
usage: tools/seeded_recheck.py [--checks "C01 C02"] [<ID>-<X> ...]   (default: all) """
import json, os, subprocess, sys, tempfile, time
from pathlib import Path
V = Path(__file__).resolve().parent.parent
RES = V/'seeded'/'results.json'


def main():
    args = sys.argv[1:]
    only_checks = None
    if args and args[0] == '--checks':
        only_checks = args[1].split()
        args = args[2:]
    res = json.loads(RES.read_text()) if RES.exists() else {}
    keys = args or sorted(p.name for p in (V/'seeded').iterdir() if (p/'patch.diff').exists())
    head = subprocess.check_output(['git', '-C', '/repo', 'rev-parse', '--short', 'HEAD'],
        text=True).strip()
    for key in keys:
        cur = res.get(key, {})
        checks = only_checks or sorted(cur.get('checks', {})) or [key.split('-')[0]]
        wt = tempfile.mkdtemp(prefix='vfseed-', dir='/tmp')
        subprocess.check_call(['git', '-C', '/repo', 'worktree', 'add', '--detach', '-q', wt, 'HEAD'])
        try:
            if subprocess.call(['git', 'apply', str(V/'seeded'/key/'patch.diff')], cwd=wt) != 0:
                cur['applies_at'] = None
                print(key, 'PATCH DOES NOT APPLY', flush=True)
                res[key] = cur
                continue
            cur.setdefault('checks', {})
            for c in checks:
                t0 = time.time()
                p = subprocess.run([str(V/'run.py'), 'check', c, '--tier', 'quick'], cwd=V,
                    env=dict(os.environ, VERIF_REPO=wt), capture_output=True, text=True)
                cur['checks'][c] = p.returncode
                print(key, c, 'rc=%d' % p.returncode, '%.0fs' % (time.time() - t0), flush=True)
            cur['applies_at'] = head
            res[key] = cur
        finally:
            subprocess.call(['git', '-C', '/repo', 'worktree', 'remove', '--force', wt])
            for f in (V/'evidence').glob('*.scratch.json'):
                f.unlink()
            RES.write_text(json.dumps(res, indent=1, sort_keys=True) + '\n')


if __name__ == '__main__':
    main()
