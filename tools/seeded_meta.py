#!/usr/bin/env python3
""" Writes /verif/seeded/<ID>-<X>/meta.json and /verif/seeded/INDEX.md from the table below and
seeded/results.json (return codes of the quick checks against each change). """
import json, re, glob
from pathlib import Path
V = Path(__file__).resolve().parent.parent
T = {
 'C01-A': ('C01', 'VariantPeptideDict.translational_modification: `v.location.end <= sec.start` became `<`', 'selenoprotein + --selenocysteine-termination + a variant ending exactly at the first base of the Sec codon and no other upstream variant in the peptide: the Sec-terminated variant peptides vanish', ['C01'], ['C05']),
 'C01-B': ('C01', 'VariantRecordPoolOnDisk.load_index overwrites instead of appending pointers', 'indexGVF first (an .idx exists), then a transcript whose records sit in >= 2 index chunks (two GVFs or interleaved isoforms): only the last chunk survives', ['C13', 'C06'], ['C01']),
 'C02-A': ('C02', 'find_miscleaved_nodes skips npop_collapsed nodes when counting missed cleavages', 'non-default collapse parameters (--min-nodes-to-collapse 3 --naa-to-collapse 3) and >= 3 SNVs in one peptide: peptides with one missed cleavage too many are reported', ['C02'], []),
 'C02-B': ('C02', 'PVGNode.fix_selenocysteines trims on start_offset instead of end_offset', 'selenoprotein + an indel starting inside the Sec codon after base 1: a peptide with U is reported where only C is realizable', ['C02'], []),
 'C03-A': ('C03', 'same `<` off-by-one as C01-A, seen through headers', 'Sec-terminated peptide with a variant adjacent to the Sec codon AND another upstream variant: the header omits the adjacent variant', ['C03', 'C01'], []),
 'C03-B': ('C03', 'PVGNode.get_stop_lost_variants window starts one base late', 'stop lost by an SNV on the FIRST base of the stop codon + a second variant in a read-through peptide further downstream: header lacks the stop-lost variant', ['C03', 'C01'], []),
 'C04-A': ('C04', 'enzymatic_cleave: Met-removed twin only for the zero-miscleavage N-terminal peptide', 'a variant peptide of another transcript equal to the Met-removed N-terminal peptide with >= 1 missed cleavage of a canonical protein is written although canonical', ['C04', 'C10'], []),
 'C04-B': ('C04', 'call_alt_translation drops min_mw from CleavageParams', 'callAltTranslation with --min-mw > 500 and a W>F / SECT peptide between 500 Da and the limit', ['C04', 'C09'], []),
 'C05-A': ('C05', 'fusion loop no longer copies the variant series before truncating it', 'one transcript carrying a fusion, a circRNA (or a later fusion) and a small variant downstream of the first breakpoint inside the circRNA: adding the fusion GVF removes circRNA peptides', ['C05', 'C01'], ['C06']),
 'C05-B': ('C05', 'find_miscleaved_nodes early return ignores node.selenocysteines', '--selenocysteine-termination + Sec inside a cleavage fragment longer than max-length + variant upstream of the Sec: the Sec-truncated peptide is missing (appears when max-length is raised)', ['C01'], ['C05']),
 'C06-A': ('C06', 'load_index uses setdefault: later pointers of a transcript dropped when an .idx exists', '.idx present and a transcript with > 1 pointer (interleaved isoforms / two indexed GVFs)', ['C06', 'C13'], []),
 'C06-B': ('C06', 'generate_index drops min_length when building the canonical pool', 'generateIndex/callVariant with --min-length < 7 and a variant peptide of that length equal to a canonical peptide (I->L SNV)', ['C10'], ['C06']),
 'C07-A': ('C07', 'fusion loop swaps filtered variants into the shared pool and restores them outside a finally', '--skip-failed + a failing fusion + a later unit on the same donor with a variant downstream of the breakpoint', ['C07'], []),
 'C07-B': ('C07', 'failure tally updated with if/elif/elif', '--skip-failed + two failing units of different kinds in one transcript: only the first kind is tallied', ['C07'], []),
 'C08-A': ('C08', 'W>F working copy not reset per combination', '--w2f-reassignment + peptide with >= 2 W: forms keeping the first W are missing', ['C08', 'C09'], []),
 'C08-B': ('C08', 'min-tx-length compared with the genomic span instead of the spliced length', 'multi-exon non-coding transcript with spliced length < --min-tx-length <= genomic span (non-default value)', ['C08'], []),
 'C09-A': ('C09', 'same early return as C05-B', 'Sec inside a fragment longer than max_length whose Sec-truncated part is valid: the zero-miscleavage SECT peptide and its W>F forms are missing', ['C09'], []),
 'C09-B': ('C09', 'cds_start_nf / mrna_end_nf arguments swapped in call_alt_translation_main', 'transcript tagged mRNA_end_NF only, --w2f-reassignment, W in the open C-terminal fragment: W>F forms of the tail are reported', ['C09'], []),
 'C10-A': ('C10', 'early break on over-long peptides before the initiator-Met handling', 'protein starting with M whose N-terminal product (0..m missed cleavages) is exactly max_length+1 long: Met-removed form missing from every pool path', ['C10', 'C04'], []),
 'C10-B': ('C10', 'pepsin ph2.0 rule half-copied from ph1.3 in both regex tables', 'rare enzyme pepsin ph2.0 with W/Y in P1', ['C10'], []),
 'C11-A': ('C11', 'get_transcript_index minus strand: `>` became `>=`', 'minus-strand transcript queried at the intronic base touching the right end of an exon: mapped instead of rejected', ['C11'], []),
 'C11-B': ('C11', 'get_cds_end_index minus strand takes three_utr[0] instead of [-1]', 'minus-strand coding transcript whose 3\'UTR spans >= 2 exons: orf.end wrong', ['C11'], []),
 'C12-A': ('C12', 'updateIndex saves metadata only `if not args.force`', 'generate(P1); update --force(P2 new); load(P2): pool written but never registered', ['C12'], []),
 'C12-B': ('C12', 'validate_metadata swaps receiver and argument of is_valid', 'metadata.json recorded with moPepGen < 1.3.0: accepted instead of rejected', ['C12'], []),
 'C13-A': ('C13', 'GVF index offsets advance by characters instead of bytes', 'a multi-byte UTF-8 character in the GVF (e.g. a header path) before a record group', ['C13'], []),
 'C13-B': ('C13', 'validate_gvf_index returns False instead of raising', 'index the GVF, edit it, open without re-indexing: stale .idx accepted', ['C13'], []),
 'C14-A': ('C14', 'VEP allele complemented instead of reverse-complemented', 'minus-strand gene + inserted/substituted allele of >= 2 bases that is not its own reversal', ['C14'], []),
 'C14-B': ('C14', 'REDItools exonic test uses position instead of position-1', 'editing site on the last base of a non-terminal exon / the intron base before an exon', ['C14'], []),
 'C15-A': ('C15', 'Arriba donor position +1 applied in genomic instead of gene coordinates', 'Arriba format + donor gene on the minus strand: donor part 2 nt short', ['C15'], []),
 'C15-B': ('C15', 'callVariant reads the acceptor sequences from the donor chromosome', 'inter-chromosomal fusion', ['C15'], []),
 'C16-A': ('C16', 'create_upstream_substitution: exclusive end applied before the strand swap', 'MXE on a minus-strand gene where the transcript carries the 2nd exon: swapped-in exon loses first and last nucleotide', ['C16'], []),
 'C16-B': ('C16', 'parse_rmats passes min_ijc for min_sjc', '--min-ijc != --min-sjc and an event whose SJC lies between them', ['C16'], []),
 'C17-A': ('C17', 'CircRNAModel.to_string writes min fragment start as POS but offsets relative to fragments[0]', 'minus-strand transcript + record with >= 2 exons', ['C17'], []),
 'C17-B': ('C17', 'find_intron_index minus strand end offset lost its negation', 'ciRNA on the minus strand overrunning the downstream exon beyond the upper tolerance with a non-zero lower tolerance', ['C17'], []),
 'C18-A': ('C18', 'VariantSourceSet.__gt__ tie-break replaced by any()', 'peptide with two entries whose equal-size source sets cross in rank, lower-priority one first, --max-source-groups >= 2', ['C18'], []),
 'C18-B': ('C18', 'encodeFasta caches the identifier after the decoy string is attached', 'decoy record preceding its target (decoyFasta --order decoy_first) then encodeFasta', ['C18'], []),
 'C19-A': ('C19', 'filter: trypsin exception not passed when counting miscleavages', '--miscleavages with trypsin and a peptide holding an exception motif, range boundary between the counts', ['C19'], []),
 'C19-B': ('C19', 'is_circ_rna recognises only the CIRC- prefix', 'header entry with a CI- backbone + low-expressed host or denylist with --keep-canonical', ['C19'], []),
 'C20-A': ('C20', 'seed tested for truthiness: --seed 0 ignored', '--method shuffle --seed 0', ['C20'], []),
 'C20-B': ('C20', 'terminal residue always skips the non-shuffle-pattern test', '--keep-peptide-nterm/cterm false + a pattern residue at that terminus', ['C20'], []),
}

# round 2 (C/D): written by fresh sub-agents told to avoid the places of round 1
T.update({
 'C01-C': ('C01', 'fusion loop of call_variant_peptides_wrapper no longer copies the transcript\'s variant series before truncating it at the breakpoint', 'a donor transcript with >= 2 fusions (or fusion + circRNA) and a point variant downstream of the first breakpoint: later units are built without it', [], []),
 'C01-D': ('C01', 'find_mnvs_from_adjacent_variants: the search for an adjacent partner stops at the first record that is not adjacent (records that start before the end of the first are no longer skipped)', 'two adjacent SNVs with a third record overlapping the first one sorted between them (same-position alleles, an indel at the first SNV): the merged MNV haplotype is missing', [], []),
 'C02-C': ('C02', 'merge_nodes_routes: routes skipped because of --max-variants-per-node are left in the cleavage graph', 'a binding limit (more variants in one cleavage-graph route than --max-variants-per-node, e.g. 3 SNVs in one tryptic peptide with the limit 2, or the timeout-driven retries): fragments that start or end at a variant boundary are reported', [], []),
 'C02-D': ('C02', 'PVGOrf.location_is_at_least_one_loop_downstream: `i >= j` became `i > j`', 'circRNA whose ORF runs round the circle more than once + a variant whose last base is exactly the first base of the cleavage-graph node that holds the start codon + a second variant in the codon in front that removes the cleavage site: peptides that use the variant in the second round but not in the first', [], []),
 'C03-C': ('C03', 'PVGNode.get_cleavage_gain_variants: `is not None` dropped, a pattern starting at node index 0 counts as no pattern', 'cleavage site gained through a look-behind residue (trypsin WKP/MRP) that is the first residue after another site + a second variant in the downstream peptide: header omits the site-creating SNV', [], []),
 'C03-D': ('C03', 'create_mnv_from_adjacent stores the gene id as TRANSCRIPT_ID', 'AS insertion/substitution (retained intron) + two adjacent SNVs inside the inserted region merged as MNV: header ids become <gene>-<id>', [], []),
 'C04-C': ('C04', 'iter_enzymatic_cleave_sites collects exception matches with start() instead of end()', 'trypsin exception in force + canonical protein with an exception motif + a non-canonical source reproducing a peptide at that site: canonical peptide written', ['C04', 'C10', 'C12'], []),
 'C04-D': ('C04', 'register_canonical_pool loses the index increment', 'generateIndex(trypsin); updateIndex(lysc); callVariant --index-dir with trypsin: second pool overwrites the first file', ['C10', 'C12'], ['C04']),
 'C05-C': ('C05', 'load_index collects pointers in a local dict and update()s', 'indexed GVFs (.idx) + two GVF files sharing a transcript: the first file\'s variants are dropped', ['C06', 'C13'], ['C05', 'C01']),
 'C05-D': ('C05', 'truncate_sec / w2f passed positionally in swapped order to call_canonical_peptides', 'the two flags differ + a genomic W>F MNV: peptide vanishes when SECT is switched on', ['C05', 'C01'], ['C06', 'C13']),
 'C06-C': ('C06', 'VariantRecordPool.filter_variants: sorted() result discarded', 'two adjacent SNVs on a fusion donor + junction-spanning peptide + a hash seed iterating the set in descending order', ['C01'], ['C06']),
 'C06-D': ('C06', 'batch flush evaluated only inside `if dispatch:`', '--threads >= 2 + pending partial batch + last transcripts skipped (intronic only)', ['C06'], ['C01']),
 'C07-C': ('C07', 'early `continue` for skipped transcripts also skips the end-of-list flush', '--threads > 1 + last transcript in order skipped (unmappable record under --skip-failed, or intronic only) + pending batch', ['C06'], ['C07']),
 'C07-D': ('C07', 'fusion result registration moved after the try/except without continue', 'failing fusion that is the first result-producing unit of its transcript: UnboundLocalError despite --skip-failed', ['C07'], ['C06']),
 'C08-C': ('C08', 'get_orf_sequences: stop-less ORF one codon short', '--output-orf + ORF without stop whose last codon ends on the last nucleotide of the transcript', ['C08'], []),
 'C08-D': ('C08', 'call_novel_orf drops exception= from CleavageParams', 'default --cleavage-exception auto + ORF with a trypsin exception motif', ['C08'], []),
 'C09-C': ('C09', 'PVGNode.truncate_left splits the Sec records of the wrong node', '--selenocysteine-termination + Sec codon in the first cleavage fragment of the ORF', ['C09'], ['C08']),
 'C09-D': ('C09', 'call_alt_translation drops exception= from CleavageParams', 'trypsin exception in force + exception motif next to a W or upstream of a Sec', ['C09'], ['C08']),
 'C10-C': ('C10', 'cds_start_nf flag not reset for proteins whose transcript is absent from the GTF', 'proteome protein starting with M without annotated transcript placed right after a cds_start_NF protein', ['C10'], ['C04']),
 'C10-D': ('C10', 'load_references drops min_mw for the on-the-fly pool', 'no index + non-default --min-mw', [], []),
 'C11-C': ('C11', 'GTFPointerDict cache and key deque moved to class attributes', 'two indexed annotations in one process sharing ids, or a gene id equal to a transcript id', [], []),
 'C11-D': ('C11', 'GtfIO.write extends the model\'s cds list in place', 'write an annotation, then reuse the same object (sequence / ORF, or write again)', [], []),
 'C12-C': ('C12', 'generate_index pickles the proteome after it was mutated in place', 'protein with leading X (or --invalid-protein-as-noncoding with *): loaded proteome differs from what was given', [], []),
 'C12-D': ('C12', 'wipe_canonical_peptides removes while iterating + init_metadata dropped', 'generate; >= 1 update; generate --force; load with surviving parameters: stale pool of the old reference', [], []),
 'C13-C': ('C13', 'load_index appends only when the key is new', '.idx present + a transcript key recurring (non-contiguous blocks or second file)', [], []),
 'C13-D': ('C13', 'VariantRecord.__hash__ hashes DONOR_START twice', 'two <INS>/<SUB> records equal in POS/REF/ALT/type and DONOR_START but different DONOR_END: collapsed by set() through the index', [], []),
 'C14-C': ('C14', 'cds_start_NF exemption widened to events before the transcript start', 'cds_start_NF transcript starting inside its gene + event before its first base', [], []),
 'C14-D': ('C14', 'parse_reditools passes min_coverage_rna as min_coverage_dna', '--min-coverage-dna != --min-coverage-rna and gCoverage between them', [], []),
 'C15-C': ('C15', 'get_upstream_exon_end plus strand: `>` became `>=`', 'plus-strand donor whose breakpoint is exactly the first intronic base behind exon >= 2', [], []),
 'C15-D': ('C15', 'FusionCatcher parser shares one attrs dict between the records of a row', 'FusionCatcher format + >= 2 eligible isoform pairs', [], []),
 'C16-C': ('C16', 'has_junction ignores the last junction of a transcript', 'fully annotated event whose junctions are the last junction of every isoform carrying them', ['C16'], []),
 'C16-D': ('C16', 'create_upstream_deletion ends at the first interjacent exon', 'upstream-deletion geometry with >= 2 exons of the transcript inside the event', ['C16'], []),
 'C17-C': ('C17', 'CIRCexplorer3 is_valid drops the read-number check', '--circexplorer3 + --min-read-number above a record\'s count', [], []),
 'C17-D': ('C17', 'intron_end_range parsed from the start-range option', 'ciRNA overrunning the intron end by 1-5 nt with default ranges', [], []),
 'C18-C': ('C18', 'intragenic fusion: acceptor variants overwrite the gene key', 'fusion whose two transcripts share a gene + acceptor-side variant', [], []),
 'C18-D': ('C18', 'summarizeFasta registers the internal sources before the GVF sources', 'incomplete --order-source + a peptide with a GVF-source entry and a purely internal entry', [], []),
 'C19-C': ('C19', 'circRNA identifiers lose their alt-translation ids when re-rendered', 'CIRC-/CI- entry carrying a W2F- or SECT- id', [], []),
 'C19-D': ('C19', 'miscleavage guard tests truthiness', '--miscleavages 0:0', [], []),
 'C20-C': ('C20', 'shuffle_sequence appends a single residue instead of the tail slice', 'method shuffle + target ending in >= 2 consecutive fixed positions', [], []),
 'C20-D': ('C20', 'suffix decoy header built from seq.id', '--decoy-string-position suffix + header containing blanks', [], []),
})

# round 3 (E/F): third set of sub-agents, told what rounds 1 and 2 had used
T.update({
 'C01-E': ('C01', 'call_peptide_circ_rna no longer passes w2f to call_variant_peptides', 'circRNA record + --w2f-reassignment + a circRNA peptide containing W', [], []),
 'C01-F': ('C01', 'gather_data_for_call_variant uses the donor transcript\'s chromosome for every sequence it fetches', 'fusion whose partners lie on different chromosomes: acceptor sequence sliced from the wrong chromosome', [], []),
 'C02-E': ('C02', 'create_variant_graph searches adjacent-variant MNVs in the unfiltered record list', 'two adjacent SNVs, the first on the 2nd or 3rd base of the start codon (records on the start codon are filtered one by one but return inside the merged MNV): peptides of a molecule without start codon', [], []),
 'C02-F': ('C02', 'fit_into_cleavage_multiple_upstream drops the cleavage exception at the second cut of a shared node', 'trypsin with its exception + a variant bubble followed by a shared node with >= 2 sites and an exception motif between them + another variant downstream', [], []),
 'C03-E': ('C03', 'PVGCollapseNode.__eq__ no longer compares the in-frame indel sets', 'in-frame indel inside a run of identical residues (K deleted from R-K-K-H), not codon aligned, and a second variant within miscleavage reach: indel id printed on peptides without the indel', [], []),
 'C03-F': ('C03', 'apply_fusion selects acceptor variants by gene as well as by transcript', 'fusion between two isoforms of one gene with different exon structure upstream of a variant: another isoform\'s record applied at the wrong base and named in the header', [], []),
 'C05-E': ('C05', 'same MNV search change as C01-D (delivered independently for C05)', 'adding a third record anchored at the first of two adjacent SNVs removes the both-SNV peptide', [], []),
 'C05-F': ('C05', 'same dispatch-loop change as C07-C (delivered independently for C05)', '--threads >= 2 and a GVF added whose only record is intronic on the last transcript: the pending batch is dropped', [], []),
 'C06-F': ('C06', 'register_canonical_pool numbers the second pool 1 again (same file as the first)', 'generateIndex(trypsin); updateIndex(lysc); callVariant --index-dir with trypsin loads the lysc pool', [], []),
 'C07-E': ('C07', 'create_variant_graph rewrites a start-codon indel to end inclusion only in graphs without fusion', 'indel on the last base of the start codon + fusion with that donor + the main unit failing under --skip-failed (the units share the record object, which the main unit normally rewrites first)', [], []),
 'C07-F': ('C07', 'STARFusionParser: genome lookup moved into the try block that maps KeyError to GeneNotFoundError', 'STAR-Fusion row with valid genes on a contig absent from the genome FASTA: silently skipped without --skip-failed, tallied as invalid gene id', [], []),
 'C10-E': ('C10', 'get_canonical_pool treats a stored exception of None as matching any requested exception', 'generateIndex -c lysc; updateIndex -c lysc --cleavage-exception trypsin_exception: "already exists", --force overwrites the first pool', [], []),
 'C10-F': ('C10', 'create_unique_peptide_pool strips X from both ends of the protein', 'protein that starts and ends with X (cds_start_NF + cds_end_NF): C-terminal fragment enters the pool as a complete peptide', [], []),
 'C12-E': ('C12', 'get_canonical_pool ignores requested parameters whose value is falsy', 'generateIndex -m 2; load / updateIndex with miscleavage 0 (or min_mw 0): foreign pool returned, --force overwrites it', [], []),
 'C12-F': ('C12', 'generateIndex no longer forwards invalid_protein_as_noncoding (default True in save_annotation)', 'proteome entry with an internal * and the flag not given: transcript dropped from the coding set, pools of generateIndex and updateIndex disagree', [], []),
 'C13-E': ('C13', 'checksum validation skipped when the .idx is newer than the GVF', 'GVF edited after indexing and the .idx touched / copied later: stale pointers used silently', [], []),
 'C13-F': ('C13', 'GVFPointer.parse drops the is_circ_rna flag', 'circRNA GVF with an .idx: circRNA lines loaded as bogus variant records (identical text, wrong kind)', [], []),
 'C18-E': ('C18', 'create_wildcard_map lets a later wildcard pattern overwrite an earlier one', '--order-source with two overlapping wildcard patterns and a peptide carrying both bases: lands in the lower-priority database', [], []),
 'C18-F': ('C18', 'remove_redundant_headers keys entries by backbone only (split instead of rsplit)', 'mergeFasta --dedup-header with two entries of one backbone that differ in variants or ORF: all but the first dropped', [], []),
})
# results of the confirmation / re-verification runs (tools/seeded.sh, tools/seeded_recheck.py)
RES = V/'seeded'/'results.json'
res = json.loads(RES.read_text()) if RES.exists() else {}
# first confirmation runs (tools/seeded.sh) leave RESULT files under /tmp: taken over once
for f in glob.glob('/tmp/seed/results/*/RESULT'):
    m = re.match(r'RESULT (\S+) .*checks:(.*)', open(f).read().strip())
    if m and m.group(1) not in res:
        res[m.group(1)] = dict(applies_at='(first confirmation run)', checks={a: int(b)
            for a, b in (x.split(':rc=') for x in m.group(2).split())})
RES.write_text(json.dumps(res, indent=1, sort_keys=True) + '\n')
rows = []
for key, (prop, change, needs, caught, missed) in sorted(T.items()):
    d = V/'seeded'/key
    if not (d/'patch.diff').exists():
        continue
    got = dict(res.get(key, {}).get('checks', {}))
    for k in caught:
        got.setdefault(k, 1)
    for k in missed:
        got.setdefault(k, 0)
    caught = sorted(k for k, v in got.items() if v == 1)
    missed = sorted(k for k, v in got.items() if v != 1)
    meta = dict(id=key, property_broken=prop, change=change, needs_to_manifest=needs,
        demonstration='demo.py: exits 1 with patch.diff applied to /repo HEAD, 0 without (run from the checkout root with /venv/bin/python)',
        confirmed_by='tools/seeded.sh: scratch worktree of /repo HEAD; demo on the clean tree (exit 0), git apply patch.diff, demo (exit 1), full pytest suite compared with BASELINE.json stable_pass (no stable test lost); then `VERIF_REPO=<worktree> ./run.py check <ID> --tier quick` for the listed checks',
        checked_against_repo_commit=res.get(key, {}).get('applies_at'),
        caught_by_quick_checks=caught, not_caught_by=missed)
    if res.get(key, {}).get('applies_at') is None:
        meta['note'] = ('the patch no longer applies to /repo HEAD (the function it changes was '
            'rewritten by a later fix: commit); results are those of the confirmation run '
            'against the commit it was written for')
    (d/'meta.json').write_text(json.dumps(meta, indent=1) + '\n')
    rows.append(f"| {key} | {prop} | {change} | {needs} | {', '.join(caught)} | {', '.join(missed) or '-'} |")
(V/'seeded'/'INDEX.md').write_text('# Seeded changes (written by independent sub-agents, confirmed by tools/seeded.sh)\n\n'
    '| id | property | change | needs to manifest | caught by (quick tier) | tried, not caught by |\n|---|---|---|---|---|---|\n' + '\n'.join(rows) + '\n')
print(len(rows), 'seeded changes documented')
