#!/venv/bin/python
""" Entry point:  run.py check <ID> --tier quick|thorough ;  run.py replay <ID> <file> """
import os
import sys
import argparse

os.environ.setdefault('PYTHONHASHSEED', '0')
if os.environ.get('VF_REEXEC') != '1' and os.environ.get('PYTHONHASHSEED') == '0' \
        and sys.flags.hash_randomization:
    # make the hash seed effective for this very process
    os.environ['VF_REEXEC'] = '1'
    os.execv(sys.executable, [sys.executable] + sys.argv)

sys.path.insert(0, os.path.dirname(os.path.abspath(__file__)))
if os.environ.get('VERIF_REPO'):
    # test a scratch worktree instead of /repo (sensitivity runs); sub-processes inherit it
    sys.path.insert(0, os.environ['VERIF_REPO'])
    os.environ['PYTHONPATH'] = os.environ['VERIF_REPO'] + os.pathsep + os.environ.get('PYTHONPATH', '')
os.environ.setdefault('MOPEPGEN_VERIF', '1')
import warnings
warnings.filterwarnings('ignore')

def main():
    from vf import harness
    p = argparse.ArgumentParser()
    sub = p.add_subparsers(dest='cmd', required=True)
    c = sub.add_parser('check')
    c.add_argument('id')
    c.add_argument('--tier', default=os.environ.get('VERIF_TIER', 'quick'),
        choices=['quick', 'thorough'])
    r = sub.add_parser('replay')
    r.add_argument('id')
    r.add_argument('path')
    a = p.parse_args()
    if a.cmd == 'check':
        sys.exit(harness.run_check(a.id.upper(), a.tier))
    sys.exit(harness.run_replay(a.id.upper(), a.path))

if __name__ == '__main__':
    main()
