""" Generator of small coherent references (genome + annotation + proteome).
Every random choice goes through vf.dr.D (Hypothesis draws). """
from __future__ import annotations
from vf.model import Ref, STOPS, COMP, CODON

NONCODING_BIOTYPES = ['lncRNA', 'processed_pseudogene', 'retained_intron', 'miRNA',
    'processed_transcript', 'TEC']


def _tx_idx(exons, strand):
    idx = [p for a, b in exons for p in range(a, b)]
    return idx if strand == 1 else idx[::-1]


class _Chrom:
    def __init__(self, seq):
        self.s = list(seq)

    def get(self, p, strand):
        c = self.s[p]
        return c if strand == 1 else c.translate(COMP)

    def put(self, p, strand, nt):
        self.s[p] = nt if strand == 1 else nt.translate(COMP)


def _codon(ch, idx, strand, i):
    return ''.join(ch.get(idx[i + k], strand) for k in range(3))


def _contiguous(idx, i, n=3):
    return all(abs(idx[i + k + 1] - idx[i + k]) == 1 for k in range(n - 1))


def make_isoforms(d, blocks, max_tx):
    """ derive 1..max_tx exon lists from the genomic blocks """
    txs = [list(map(list, blocks))]
    n_extra = d.randint(0, max_tx - 1)
    for _ in range(n_extra):
        ex = [list(b) for b in blocks]
        kind = d.choice(['skip', 'alt5', 'alt3', 'retain', 'trunc', 'same'])
        if kind == 'skip' and len(ex) >= 3:
            ex.pop(d.randint(1, len(ex) - 2))
        elif kind == 'alt5' and len(ex) >= 2:
            k = d.randint(0, len(ex) - 2)
            if ex[k][1] - ex[k][0] > 8:
                ex[k][1] -= d.randint(1, 5)
        elif kind == 'alt3' and len(ex) >= 2:
            k = d.randint(1, len(ex) - 1)
            if ex[k][1] - ex[k][0] > 8:
                ex[k][0] += d.randint(1, 5)
        elif kind == 'retain' and len(ex) >= 2:
            k = d.randint(0, len(ex) - 2)
            ex[k][1] = ex[k + 1][1]
            ex.pop(k + 1)
        elif kind == 'trunc' and len(ex) >= 2:
            if d.chance(0.5):
                ex.pop(0)
            else:
                ex.pop()
        if ex not in txs or kind == 'same':
            txs.append(ex)
    return txs


def gen_reference(d, n_genes=(1, 2), max_tx=2, exon_len=(12, 70), intron_len=(3, 30),
        n_exons=(1, 3), p_coding=0.7, p_sec=0.45, p_nf=0.12, min_codons=8,
        p_minus=None, utr_styles=('gencode', 'gencode', 'ensembl')) -> dict:
    # pylint: disable=too-many-locals,too-many-branches,too-many-statements
    ng = d.randint(*n_genes)
    chrom_names = ['chr1', 'chr2']
    layout = {}      # chrom -> current length
    plans = []
    for gi in range(ng):
        chrom = chrom_names[gi % 2] if d.chance(0.7) else 'chr1'
        pos = layout.get(chrom, 0) + d.randint(5, 20)
        ne = d.randint(*n_exons)
        blocks = []
        for _ in range(ne):
            ln = d.randint(*exon_len)
            blocks.append([pos, pos + ln])
            pos += ln + d.randint(*intron_len)
        pos = blocks[-1][1] + d.randint(2, 12)
        layout[chrom] = pos
        plans.append((chrom, blocks))
    chroms = {c: _Chrom(d.bases(n + 10)) for c, n in layout.items()}
    genes = []
    tcount = 0
    for gi, (chrom, blocks) in enumerate(plans):
        ch = chroms[chrom]
        strand = d.choice([1, -1]) if p_minus is None else (-1 if d.chance(p_minus) else 1)
        gid = f'ENSG0000000{gi + 1:04d}.{d.randint(1, 9)}'
        exon_lists = make_isoforms(d, blocks, max_tx)
        coding = d.chance(p_coding)
        gene = dict(id=gid, name=f'GN{gi + 1}', chrom=chrom, strand=strand,
            start=min(e[0][0] for e in exon_lists), end=max(e[-1][1] for e in exon_lists),
            biotype='protein_coding' if coding else d.choice(NONCODING_BIOTYPES), txs=[])
        if d.chance(0.2):
            gene['start'] = max(0, gene['start'] - d.randint(1, 4))
            gene['end'] = gene['end'] + d.randint(1, 4)
        start_codon_g = None
        sec_g = []
        for ti, exons in enumerate(exon_lists):
            tcount += 1
            tid = f'ENST0000000{tcount:04d}.{d.randint(1, 5)}'
            t = dict(id=tid, exons=exons, cds=None, secs=[], tags=[],
                biotype=gene['biotype'], pid=f'ENSP0000000{tcount:04d}.1',
                utr=d.choice(utr_styles))
            idx = _tx_idx(exons, strand)
            n = len(idx)
            if coding and ti == 0:
                nf_start = d.chance(p_nf)
                if nf_start:
                    s = d.randint(0, 2)
                    t['tags'].append('cds_start_NF')
                    t['cds_frame'] = s
                else:
                    s = d.randint(0, max(0, n // 3))
                max_cod = (n - s - 3) // 3
                if max_cod < min_codons:
                    t['biotype'] = 'processed_transcript'
                    gene['txs'].append(t)
                    coding = False
                    gene['biotype'] = 'lncRNA'
                    t['biotype'] = 'lncRNA'
                    continue
                ncod = d.randint(min_codons, max_cod)
                e = s + 3 * ncod
                if not nf_start:
                    for k, nt in enumerate('ATG'):
                        ch.put(idx[s + k], strand, nt)
                    start_codon_g = [idx[s + k] for k in range(3)]
                # W / K / R / M patches to make peptides and alt-translation sites denser
                for _ in range(d.randint(0, 4)):
                    c = s + 3 * d.randint(1, ncod - 1)
                    cod = d.choice(['TGG', 'AAA', 'AGA', 'ATG', 'TGG', 'AAG', 'CGT', 'CCA'])
                    for k, nt in enumerate(cod):
                        ch.put(idx[c + k], strand, nt)
                for c in range(s + (0 if nf_start else 3), e, 3):
                    while _codon(ch, idx, strand, c) in STOPS:
                        for k in range(3):
                            ch.put(idx[c + k], strand, d.choice('ACGT'))
                end_nf = d.chance(p_nf) or e + 3 > n
                if d.chance(p_sec) and ncod > 6:
                    for _ in range(d.choice([1, 1, 2])):
                        c = s + 3 * d.randint(2, ncod - 2)
                        if _contiguous(idx, c) and c not in t['secs']:
                            for k, nt in enumerate('TGA'):
                                ch.put(idx[c + k], strand, nt)
                            t['secs'].append(c)
                            sec_g.append(tuple(idx[c + k] for k in range(3)))
                    t['secs'].sort()
                if end_nf:
                    # CDS runs to the transcript end: no stop codon, no 3' UTR
                    e = n - (n - s) % 3
                    for c in range(s + 3, e, 3):
                        if c in t['secs']:
                            continue
                        while _codon(ch, idx, strand, c) in STOPS:
                            for k in range(3):
                                ch.put(idx[c + k], strand, d.choice('ACGT'))
                    t['tags'].append('mRNA_end_NF')
                    e = n          # CDS feature covers everything up to the end
                else:
                    stop = d.choice(STOPS)
                    for k, nt in enumerate(stop):
                        ch.put(idx[e + k], strand, nt)
                t['cds'] = [s, e]
            gene['txs'].append(t)
        genes.append(gene)
        gene['_start_codon_g'] = start_codon_g
        gene['_sec_g'] = sec_g
        gene['_coding'] = coding
    # derive the CDS of secondary isoforms from the final sequence
    for gene in genes:
        ch = chroms[gene['chrom']]
        strand = gene['strand']
        scg = gene.pop('_start_codon_g')
        sec_g = gene.pop('_sec_g')
        coding = gene.pop('_coding')
        for ti, t in enumerate(gene['txs']):
            if ti == 0 or not coding:
                if ti > 0:
                    t['biotype'] = gene['biotype']
                continue
            idx = _tx_idx(t['exons'], strand)
            n = len(idx)
            t['biotype'] = 'retained_intron'
            if scg is None or any(p not in idx for p in scg):
                continue
            s = idx.index(scg[0])
            if s + 3 > n or [idx[s + k] for k in range(3)] != scg:
                continue
            e = None
            secs = []
            c = s + 3
            while c + 3 <= n:
                cod = _codon(ch, idx, strand, c)
                if cod in STOPS:
                    if tuple(idx[c + k] for k in range(3)) in sec_g:
                        secs.append(c)
                    else:
                        e = c
                        break
                c += 3
            if e is None:
                if p_nf <= 0:
                    continue      # stays a non-coding isoform
                t['tags'].append('mRNA_end_NF')
                e = n
            elif (e - s) // 3 < 4:
                continue
            t['cds'] = [s, e]
            t['secs'] = secs
            t['biotype'] = 'protein_coding'
    return dict(chroms={c: ''.join(x.s) for c, x in chroms.items()}, genes=genes)


def describe(refdata) -> list:
    """ class labels for evidence """
    labels = []
    for g in refdata['genes']:
        labels.append('strand:+' if g['strand'] == 1 else 'strand:-')
        for t in g['txs']:
            labels.append('tx:coding' if t.get('cds') else 'tx:noncoding')
            for tag in t.get('tags', []):
                labels.append('tag:' + tag)
            if t.get('secs'):
                labels.append('tx:sec')
            if len(t['exons']) > 1:
                labels.append('tx:multiexon')
        if len(g['txs']) > 1:
            labels.append('gene:multi_isoform')
    if len(refdata['genes']) > 1:
        labels.append('ref:multi_gene')
    return sorted(set(labels))
