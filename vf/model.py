""" Independent reference model: sequences, coordinates, translation, file writers.
No import of moPepGen here.

A reference is a plain dict (JSON-able):
  {'chroms': {name: seq},
   'genes': [{'id','name','chrom','strand'(1|-1),'start','end' (genomic, 0-based half open),
              'biotype', 'txs': [{'id','exons': [[a,b],...] genomic ascending,
                                  'cds': [s,e] | None  (transcript coords; e = end of the CDS,
                                          i.e. first base of the stop codon when complete),
                                  'secs': [transcript positions of Sec codons],
                                  'tags': [...], 'biotype', 'pid', 'utr': 'gencode'|'ensembl'|'none'}]}]}
"""
from __future__ import annotations

_b = 'TCAG'
_aa = 'FFLLSSSSYY**CC*WLLLLPPPPHHQQRRRRIIIMTTTTNNKKSSRRVVVVAAAADDEEGGGG'
CODON = {a + b + c: _aa[i * 16 + j * 4 + k] for i, a in enumerate(_b)
    for j, b in enumerate(_b) for k, c in enumerate(_b)}
STOPS = ('TAA', 'TAG', 'TGA')
COMP = str.maketrans('ACGT', 'TGCA')


def rc(s:str) -> str:
    return s.translate(COMP)[::-1]


def translate(s:str) -> str:
    return ''.join(CODON[s[i:i + 3]] for i in range(0, len(s) - len(s) % 3, 3))


class Ref:
    """ convenience accessors over the reference dict """
    def __init__(self, data:dict):
        self.data = data
        self.chroms = data['chroms']
        self.genes = {g['id']: g for g in data['genes']}
        self.txs = {}
        for g in data['genes']:
            for t in g['txs']:
                self.txs[t['id']] = (g, t)
        self._cache = {}

    def gene_of(self, tx_id):
        return self.txs[tx_id][0]

    def tx(self, tx_id):
        return self.txs[tx_id][1]

    def tx_genomic(self, tx_id):
        """ transcript index -> genomic position """
        key = ('txg', tx_id)
        if key not in self._cache:
            g, t = self.txs[tx_id]
            idx = [p for a, b in t['exons'] for p in range(a, b)]
            if g['strand'] == -1:
                idx = idx[::-1]
            self._cache[key] = idx
        return self._cache[key]

    def gene_index(self, gene_id, genomic):
        g = self.genes[gene_id]
        return genomic - g['start'] if g['strand'] == 1 else g['end'] - 1 - genomic

    def gene_to_genomic(self, gene_id, gi):
        g = self.genes[gene_id]
        return g['start'] + gi if g['strand'] == 1 else g['end'] - 1 - gi

    def tx_gene(self, tx_id):
        """ transcript index -> gene coordinate """
        key = ('txgene', tx_id)
        if key not in self._cache:
            g = self.gene_of(tx_id)
            self._cache[key] = [self.gene_index(g['id'], p) for p in self.tx_genomic(tx_id)]
        return self._cache[key]

    def base(self, chrom, genomic, strand):
        c = self.chroms[chrom][genomic]
        return c if strand == 1 else c.translate(COMP)

    def tx_seq(self, tx_id):
        key = ('txseq', tx_id)
        if key not in self._cache:
            g, t = self.txs[tx_id]
            ch = self.chroms[g['chrom']]
            s = ''.join(ch[a:b] for a, b in t['exons'])
            self._cache[key] = s if g['strand'] == 1 else rc(s)
        return self._cache[key]

    def gene_seq(self, gene_id):
        key = ('gseq', gene_id)
        if key not in self._cache:
            g = self.genes[gene_id]
            s = self.chroms[g['chrom']][g['start']:g['end']]
            self._cache[key] = s if g['strand'] == 1 else rc(s)
        return self._cache[key]

    def exons_gene(self, tx_id):
        """ exon ranges in gene coordinates, ascending """
        g, t = self.txs[tx_id]
        out = []
        for a, b in t['exons']:
            out.append((a - g['start'], b - g['start']) if g['strand'] == 1
                else (g['end'] - b, g['end'] - a))
        return sorted(out)

    def protein(self, tx_id):
        """ translation of the annotated CDS with U at Sec; None for non-coding """
        g, t = self.txs[tx_id]
        if not t.get('cds'):
            return None
        if t.get('protein') is not None:
            return t['protein']
        s, e = t['cds']
        p = list(translate(self.tx_seq(tx_id)[s:e]))
        for c in t.get('secs', []):
            k = (c - s) // 3
            if 0 <= k < len(p):
                p[k] = 'U'
        return ''.join(p)

    def proteome_entries(self):
        """ [(protein id, transcript id, gene id, gene name, sequence, cds_start_NF)] as
        written to the proteome FASTA (a dummy entry when nothing is coding) """
        out = []
        for g in self.data['genes']:
            for t in g['txs']:
                if t.get('cds'):
                    seq = self.protein(t['id'])
                    k = t.get('stop_in_protein')
                    if k is not None and 0 < k < len(seq) - 1:
                        # a proteome entry with an internal '*' (an "invalid protein", see
                        # --invalid-protein-as-noncoding)
                        seq = seq[:k] + '*' + seq[k + 1:]
                    out.append((t['pid'], t['id'], g['id'], g['name'], seq,
                        'cds_start_NF' in t.get('tags', [])))
        # proteins whose transcript is not part of the annotation (proteome and GTF need not
        # cover the same set): [position, protein id, transcript id, gene id, name, sequence]
        for pos, pid, tid, gid, name, seq in self.data.get('extra_proteins', []):
            out.insert(min(pos, len(out)), (pid, tid, gid, name, seq, False))
        if not out:
            out.append(('ENSP00000999999.1', 'ENST00000999999.1', 'ENSG00000999999.1', 'ZZ',
                'MAAAAAAAAAAAAAAAAAK', False))
        return out

    def coding_txs(self):
        return [tid for tid, (_, t) in self.txs.items() if t.get('cds')]


# ------------------------------------------------------------------ writers
def _segments(positions, exons):
    """ group sorted genomic positions into contiguous segments within exons """
    segs = []
    for p in positions:
        if segs and segs[-1][1] == p and any(a <= p < b and a <= p - 1 < b for a, b in exons):
            segs[-1][1] = p + 1
        else:
            segs.append([p, p + 1])
    return segs


def cds_segments(ref:Ref, g, t):
    """ CDS features [(genomic start, end, frame)] ascending; for cds_start_NF the CDS
    starts cds_frame bases before the first complete codon """
    idx = ref.tx_genomic(t['id'])
    s, e = t['cds']
    fr = t.get('cds_frame') or 0
    segs = _segments(sorted(idx[s - fr:e]), t['exons'])
    order = segs if g['strand'] == 1 else segs[::-1]
    tot = -fr
    frames = {}
    for a, b in order:
        frames[(a, b)] = (3 - tot % 3) % 3 if tot >= 0 else -tot
        tot += b - a
    return [(a, b, frames[(a, b)]) for a, b in segs]


def gtf_lines(ref:Ref, shuffle_within_tx=None):
    """ GENCODE-flavoured GTF. shuffle_within_tx: optional function(list)->list applied to
    the feature lines below each transcript line (real GTFs are not sorted by type) """
    lines = []
    for g in ref.data['genes']:
        st = '+' if g['strand'] == 1 else '-'
        ga = f'gene_id "{g["id"]}"; gene_type "{g["biotype"]}"; gene_name "{g["name"]}";'
        lines.append(f'{g["chrom"]}\tHAVANA\tgene\t{g["start"] + 1}\t{g["end"]}\t.\t{st}\t.\t{ga}')
        for t in g['txs']:
            ta = (f'gene_id "{g["id"]}"; transcript_id "{t["id"]}"; gene_type "{g["biotype"]}"; '
                f'gene_name "{g["name"]}"; transcript_type "{t.get("biotype", g["biotype"])}"; '
                f'transcript_name "{g["name"]}-2{t["id"][-1]}";')
            if t.get('cds'):
                ta += f' protein_id "{t["pid"]}";'
            for tag in t.get('tags', []):
                ta += f' tag "{tag}";'
            ex = t['exons']
            lines.append(f'{g["chrom"]}\tHAVANA\ttranscript\t{ex[0][0] + 1}\t{ex[-1][1]}\t.\t{st}\t.\t{ta}')
            sub = []
            for a, b in (ex if g['strand'] == 1 else ex[::-1]):
                sub.append(f'{g["chrom"]}\tHAVANA\texon\t{a + 1}\t{b}\t.\t{st}\t.\t{ta}')
            if t.get('cds'):
                idx = ref.tx_genomic(t['id'])
                s, e = t['cds']
                for a, b, frame in cds_segments(ref, g, t):
                    sub.append(f'{g["chrom"]}\tHAVANA\tCDS\t{a + 1}\t{b}\t.\t{st}\t{frame}\t{ta}')
                for c in t.get('secs', []):
                    gp = sorted(idx[c:c + 3])
                    sub.append(f'{g["chrom"]}\tHAVANA\tSelenocysteine\t{gp[0] + 1}\t{gp[2] + 1}\t.\t{st}\t.\t{ta}')
                utr = t.get('utr', 'gencode')
                if utr != 'none':
                    five = sorted(idx[:s - (t.get('cds_frame') or 0)])
                    stop_len = 0 if utr == 'gencode' else 3
                    three = sorted(idx[e + stop_len:])
                    for name, pos in (('five', five), ('three', three)):
                        for a, b in _segments(pos, ex):
                            ftype = 'UTR' if utr == 'gencode' else f'{name}_prime_utr'
                            sub.append(f'{g["chrom"]}\tHAVANA\t{ftype}\t{a + 1}\t{b}\t.\t{st}\t.\t{ta}')
            if shuffle_within_tx:
                sub = shuffle_within_tx(sub)
            lines.extend(sub)
    return lines


def proteome_lines(ref:Ref):
    lines = []
    for pid, tid, gid, name, seq, _ in ref.proteome_entries():
        lines.append(f'>{pid}|{tid}|{gid}|OTTHUMG1|OTTHUMT1|{name}-201|{name}|{len(seq)}')
        lines.append(seq)
    return lines


def write_reference(ref:Ref, d, shuffle_within_tx=None):
    """ writes genome.fasta, anno.gtf, proteome.fasta into directory d """
    from pathlib import Path
    d = Path(d)
    with open(d/'genome.fasta', 'w') as fh:
        for name, seq in ref.chroms.items():
            fh.write(f'>{name}\n')
            for i in range(0, len(seq), 60):
                fh.write(seq[i:i + 60] + '\n')
    (d/'anno.gtf').write_text('\n'.join(gtf_lines(ref, shuffle_within_tx)) + '\n')
    (d/'proteome.fasta').write_text('\n'.join(proteome_lines(ref)) + '\n')
