""" Thin in-process drivers: build the argparse.Namespace the console script would build
and call the CLI function. stdout/stderr are captured. """
from __future__ import annotations
import io
import sys
import argparse
import importlib
import contextlib
import logging
from pathlib import Path

CLEAVAGE_DEFAULTS = dict(cleavage_rule='trypsin', cleavage_exception=None, miscleavage=2,
    min_mw=500., min_length=7, max_length=25)


def mod(name):
    return importlib.import_module(f'moPepGen.cli.{name}')


class LogCapture(logging.Handler):
    def __init__(self):
        super().__init__(level=logging.DEBUG)
        self.lines = []

    def emit(self, record):
        try:
            self.lines.append(record.getMessage())
        except Exception:     # pylint: disable=broad-except
            pass


@contextlib.contextmanager
def quiet(capture_log=False):
    """ capture stdout/stderr; optionally collect moPepGen log messages """
    out, err = io.StringIO(), io.StringIO()
    handler = None
    logger = logging.getLogger('moPepGen')
    prev = logger.level
    if capture_log:
        handler = LogCapture()
        logger.setLevel(logging.INFO)
    with contextlib.redirect_stdout(out), contextlib.redirect_stderr(err):
        try:
            yield handler
        finally:
            if handler is not None:
                logger.removeHandler(handler)
                logger.setLevel(prev)


def ref_args(d:Path, index_dir=None):
    if index_dir:
        return dict(index_dir=Path(index_dir), genome_fasta=None, annotation_gtf=None,
            proteome_fasta=None, reference_source=None)
    return dict(index_dir=None, genome_fasta=Path(d)/'genome.fasta',
        annotation_gtf=Path(d)/'anno.gtf', proteome_fasta=Path(d)/'proteome.fasta',
        reference_source=None)


def cleavage_args(opts):
    out = dict(CLEAVAGE_DEFAULTS)
    for k in out:
        if k in opts:
            out[k] = opts[k]
    if 'rule' in opts:
        out['cleavage_rule'] = opts['rule']
    if 'exception' in opts:
        out['cleavage_exception'] = opts['exception']
    return out


def read_fasta(path):
    """ {sequence: header} in file order; raises on duplicates via 'dups' key """
    res = {}
    dups = []
    hdr = None
    seq = []
    if not Path(path).exists():
        return res, dups

    def flush():
        if hdr is not None:
            s = ''.join(seq)
            if s in res:
                dups.append(s)
            res[s] = hdr
    with open(path) as fh:
        for line in fh:
            line = line.rstrip('\n')
            if line.startswith('>'):
                flush()
                hdr = line[1:]
                seq = []
            elif line:
                seq.append(line)
    flush()
    return res, dups


def call_variant(d:Path, gvfs, opts:dict, out_name='out.fasta', index_dir=None,
        capture_log=False):
    """ returns (peptides {seq: header}, duplicate sequences, log lines) """
    d = Path(d)
    a = argparse.Namespace(command='callVariant', input_path=[Path(x) for x in gvfs],
        output_path=d/out_name, graph_output_dir=None, quiet=True,
        backsplicing_only=opts.get('backsplicing_only', False),
        max_adjacent_as_mnv=opts.get('max_adjacent_as_mnv', 2),
        selenocysteine_termination=opts.get('sect', False),
        w2f_reassignment=opts.get('w2f', False),
        threads=opts.get('threads', 1),
        max_variants_per_node=tuple(opts.get('max_variants_per_node', (-1,))),
        additional_variants_per_misc=tuple(opts.get('additional_variants_per_misc', (-1,))),
        min_nodes_to_collapse=opts.get('min_nodes_to_collapse', 30),
        naa_to_collapse=opts.get('naa_to_collapse', 5),
        noncanonical_transcripts=opts.get('noncanonical_transcripts', False),
        invalid_protein_as_noncoding=opts.get('invalid_protein_as_noncoding', False),
        debug_level=1, timeout_seconds=opts.get('timeout_seconds', 60),
        coding_novel_orf=opts.get('coding_novel_orf', False),
        skip_failed=opts.get('skip_failed', False),
        **ref_args(d, index_dir), **cleavage_args(opts))
    for f in (d/out_name, d/(Path(out_name).stem + '_peptide_table.txt')):
        if f.exists():
            f.unlink()
    with quiet(capture_log) as h:
        if h is not None:
            lg = logging.getLogger('moPepGen')
            lg.addHandler(h)
        mod('call_variant_peptide').call_variant_peptide(a)
    peps, dups = read_fasta(d/out_name)
    return peps, dups, (h.lines if h is not None else [])


def call_novel_orf(d:Path, opts:dict, index_dir=None):
    d = Path(d)
    a = argparse.Namespace(command='callNovelORF', output_path=d/'novel.fasta',
        output_orf=d/'orf.fasta', min_tx_length=opts.get('min_tx_length', 21),
        orf_assignment=opts.get('orf_assignment', 'max'),
        coding_novel_orf=opts.get('coding_novel_orf', False),
        w2f_reassignment=opts.get('w2f', False),
        inclusion_biotypes=opts.get('inclusion_biotypes'),
        exclusion_biotypes=opts.get('exclusion_biotypes'),
        invalid_protein_as_noncoding=opts.get('invalid_protein_as_noncoding', False),
        quiet=True, debug_level=1, **ref_args(d, index_dir), **cleavage_args(opts))
    for f in (d/'novel.fasta', d/'orf.fasta'):
        if f.exists():
            f.unlink()
    with quiet():
        mod('call_novel_orf').call_novel_orf_peptide(a)
    peps, dups = read_fasta(d/'novel.fasta')
    orfs = []
    if (d/'orf.fasta').exists():
        for line in open(d/'orf.fasta'):
            line = line.rstrip('\n')
            if line.startswith('>'):
                orfs.append([line[1:], ''])
            elif line:
                orfs[-1][1] += line      # sequences are wrapped at 60 residues
    return peps, dups, [tuple(x) for x in orfs]


def call_alt_translation(d:Path, opts:dict, index_dir=None):
    d = Path(d)
    a = argparse.Namespace(command='callAltTranslation', output_path=d/'alt.fasta',
        w2f_reassignment=opts.get('w2f', False),
        selenocysteine_termination=opts.get('sect', False),
        invalid_protein_as_noncoding=opts.get('invalid_protein_as_noncoding', False),
        quiet=True, debug_level=1, **ref_args(d, index_dir), **cleavage_args(opts))
    if (d/'alt.fasta').exists():
        (d/'alt.fasta').unlink()
    with quiet():
        mod('call_alt_translation').call_alt_translation(a)
    return read_fasta(d/'alt.fasta')


def generate_index(d:Path, out_dir:Path, opts:dict, force=False):
    a = argparse.Namespace(command='generateIndex', output_dir=Path(out_dir), force=force,
        gtf_symlink=opts.get('gtf_symlink', False),
        invalid_protein_as_noncoding=opts.get('invalid_protein_as_noncoding', False),
        quiet=True, debug_level=1, **{k: v for k, v in ref_args(d).items() if k != 'index_dir'},
        **cleavage_args(opts))
    with quiet():
        mod('generate_index').generate_index(a)


def update_index(index_dir:Path, opts:dict, force=False):
    a = argparse.Namespace(command='updateIndex', index_dir=Path(index_dir), force=force,
        quiet=True, debug_level=1, **cleavage_args(opts))
    with quiet():
        mod('update_index').update_index(a)


def call_variant_cli(d:Path, gvfs, opts:dict, out_name='cli.fasta', index_dir=None,
        hashseed='0', timeout=600):
    """ run callVariant through the console entry point in a fresh process.
    returns (returncode, peptides {seq: header}, duplicate sequences, stderr tail) """
    import os
    import subprocess
    d = Path(d)
    cmd = [sys.executable, '-m', 'moPepGen.cli', 'callVariant', '-i'] + [str(x) for x in gvfs]
    cmd += ['-o', str(d/out_name)]
    if index_dir:
        cmd += ['--index-dir', str(index_dir)]
    else:
        cmd += ['-g', str(d/'genome.fasta'), '-a', str(d/'anno.gtf'), '-p',
            str(d/'proteome.fasta')]
    c = cleavage_args(opts)
    cmd += ['-c', c['cleavage_rule'], '-m', str(c['miscleavage']), '-w', str(c['min_mw']),
        '-l', str(c['min_length']), '-x', str(c['max_length'])]
    if c['cleavage_exception'] is not None:
        cmd += ['--cleavage-exception', str(c['cleavage_exception'])]
    cmd += ['--threads', str(opts.get('threads', 1))]
    cmd += ['--max-variants-per-node'] + [str(x) for x in opts.get('max_variants_per_node', (-1,))]
    cmd += ['--additional-variants-per-misc'] + [str(x) for x in
        opts.get('additional_variants_per_misc', (-1,))]
    cmd += ['--timeout-seconds', str(opts.get('timeout_seconds', 60))]
    for flag, key in (('--selenocysteine-termination', 'sect'), ('--w2f-reassignment', 'w2f'),
            ('--coding-novel-orf', 'coding_novel_orf'), ('--skip-failed', 'skip_failed'),
            ('--noncanonical-transcripts', 'noncanonical_transcripts'),
            ('--backsplicing-only', 'backsplicing_only')):
        if opts.get(key):
            cmd.append(flag)
    cmd += ['-q']
    for f in (d/out_name, d/(Path(out_name).stem + '_peptide_table.txt')):
        if f.exists():
            f.unlink()
    env = dict(os.environ)
    env['PYTHONHASHSEED'] = str(hashseed)
    env.update(opts.get('env', {}))
    pr = subprocess.run(cmd, env=env, stdout=subprocess.PIPE, stderr=subprocess.PIPE,
        timeout=timeout, cwd=str(d), check=False)
    peps, dups = read_fasta(d/out_name)
    return pr.returncode, peps, dups, pr.stderr.decode(errors='replace')[-3000:], \
        (d/out_name).exists()
