""" Sampling surface used by all generators. Every choice comes from a Random object
seeded by (a 64-bit integer drawn by Hypothesis, the shard's seed VERIF_SEED*1000+shard):
a run is a pure function of VERIF_SEED, and values follow their usual (uniform)
distributions. The shard seed is mixed in because Hypothesis draws small integers (0, 1, ..)
very often, which made different shards regenerate identical cases. (Plain `st.integers` draws are strongly biased towards small values -
measured: P(x >= 300 | x in 0..999) = 0.50 instead of 0.70 - which starved the interesting
classes.) Failing cases are stored as concrete JSON and minimised by the harness' own
reducer (vf.harness.reduce_case) in addition to Hypothesis' shrinking of the seed. """
import os
import random
from hypothesis import strategies as st


class D:
    def __init__(self, draw):
        self.draw = draw
        base = draw(st.integers(0, 2 ** 64 - 1))
        self.rng = random.Random(f"{os.environ.get('VF_SALT', '0')}:{base}")

    def randint(self, a, b):
        if b < a:
            b = a
        return self.rng.randint(a, b)

    def choice(self, seq):
        return self.rng.choice(list(seq))

    def chance(self, p):
        return self.rng.random() < p

    def bases(self, n):
        return ''.join(self.rng.choices('ACGT', k=n))

    def letters(self, alphabet, n):
        return ''.join(self.rng.choices(alphabet, k=n))

    def sample(self, seq, k):
        seq = list(seq)
        return self.rng.sample(seq, min(k, len(seq)))

    def shuffle(self, seq):
        seq = list(seq)
        self.rng.shuffle(seq)
        return seq

    def subset(self, seq, p=0.5):
        return [x for x in seq if self.chance(p)]
