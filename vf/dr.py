""" A thin wrapper around Hypothesis' `draw` with a random.Random-like surface,
so that generators read like ordinary sampling code while every choice stays
inside Hypothesis (shrinkable, replayable, seed-controlled). """
from hypothesis import strategies as st


class D:
    def __init__(self, draw):
        self.draw = draw

    def randint(self, a, b):
        if b < a:
            b = a
        return self.draw(st.integers(a, b))

    def choice(self, seq):
        seq = list(seq)
        return seq[self.draw(st.integers(0, len(seq) - 1))]

    def chance(self, p):
        """ True with probability ~p (shrinks towards False) """
        return self.draw(st.integers(0, 999)) >= 1000 - int(p * 1000)

    def bases(self, n):
        """ n nucleotides from one binary draw (2 bits per base) """
        raw = self.draw(st.binary(min_size=(n + 3) // 4, max_size=(n + 3) // 4))
        return ''.join('ACGT'[(b >> s) & 3] for b in raw for s in (0, 2, 4, 6))[:n]

    def letters(self, alphabet, n):
        return ''.join(alphabet[i] for i in
            self.draw(st.lists(st.integers(0, len(alphabet) - 1), min_size=n, max_size=n)))

    def sample(self, seq, k):
        seq = list(seq)
        out = []
        for _ in range(min(k, len(seq))):
            out.append(seq.pop(self.draw(st.integers(0, len(seq) - 1))))
        return out

    def shuffle(self, seq):
        return self.draw(st.permutations(list(seq)))

    def subset(self, seq, p=0.5):
        return [x for x in seq if self.chance(p)]
