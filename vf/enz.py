""" Independent model of the 35 ExPASy PeptideCutter rules (+ trypsin exception),
written as position-specific residue constraints around the scissile bond
(P4 P3 P2 P1 | P1' P2'), NOT as regular expressions.  A constraint is
  ('in', 'KR')   residue must be one of these
  ('not', 'P')   a residue must be present and not one of these
  ('any',)       a residue (letter) must be present
Absent key = unconstrained (may also be beyond the sequence end).
Each rule is a list of alternatives; a bond is cleaved if any alternative holds.
Source: https://web.expasy.org/peptide_cutter/peptidecutter_enzymes.html
"""
from functools import lru_cache
from Bio.SeqUtils import molecular_weight

NOT_CASP = ('not', 'PEDQKR')


def _casp(p4, p3, p2, p1p=None):
    alt = {-4: ('in', p4), -3: ('in', p3) if p3 else ('any',), -2: ('in', p2), -1: ('in', 'D')}
    if p1p:
        alt[1] = p1p
    return [alt]


RULES = {
    'arg-c': [{-1: ('in', 'R')}],
    'asp-n': [{-1: ('any',), 1: ('in', 'D')}],
    'bnps-skatole': [{-1: ('in', 'W')}],
    'caspase 1': _casp('FWYL', None, 'HAT', NOT_CASP),
    'caspase 2': _casp('D', 'V', 'A', NOT_CASP),
    'caspase 3': _casp('D', 'M', 'Q', NOT_CASP),
    'caspase 4': _casp('L', 'E', 'V', NOT_CASP),
    'caspase 5': _casp('LW', 'E', 'H'),
    'caspase 6': _casp('V', 'E', 'HI', NOT_CASP),
    'caspase 7': _casp('D', 'E', 'V', NOT_CASP),
    'caspase 8': _casp('IL', 'E', 'T', NOT_CASP),
    'caspase 9': _casp('L', 'E', 'H'),
    'caspase 10': _casp('I', 'E', 'A'),
    'chymotrypsin high specificity': [
        {-1: ('in', 'FY'), 1: ('not', 'P')},
        {-1: ('in', 'W'), 1: ('not', 'MP')}],
    'chymotrypsin low specificity': [
        {-1: ('in', 'FLY'), 1: ('not', 'P')},
        {-1: ('in', 'W'), 1: ('not', 'MP')},
        {-1: ('in', 'M'), 1: ('not', 'PY')},
        {-1: ('in', 'H'), 1: ('not', 'DMPW')}],
    'clostripain': [{-1: ('in', 'R')}],
    'cnbr': [{-1: ('in', 'M')}],
    'enterokinase': [{-4: ('in', 'DE'), -3: ('in', 'DE'), -2: ('in', 'DE'), -1: ('in', 'K')}],
    'factor xa': [{-4: ('in', 'AFGILTVM'), -3: ('in', 'DE'), -2: ('in', 'G'), -1: ('in', 'R')}],
    'formic acid': [{-1: ('in', 'D')}],
    'glutamyl endopeptidase': [{-1: ('in', 'E')}],
    'granzyme b': [{-4: ('in', 'I'), -3: ('in', 'E'), -2: ('in', 'P'), -1: ('in', 'D')}],
    'hydroxylamine': [{-1: ('in', 'N'), 1: ('in', 'G')}],
    'iodosobenzoic acid': [{-1: ('in', 'W')}],
    'lysc': [{-1: ('in', 'K')}],
    'lysn': [{-1: ('any',), 1: ('in', 'K')}],
    'ntcb': [{-1: ('any',), 1: ('in', 'C')}],
    'pepsin ph1.3': [
        {-3: ('not', 'HKR'), -2: ('not', 'P'), -1: ('not', 'R'), 1: ('in', 'FL'), 2: ('not', 'P')},
        {-3: ('not', 'HKR'), -2: ('not', 'P'), -1: ('in', 'FL'), 1: ('any',), 2: ('not', 'P')}],
    'pepsin ph2.0': [
        {-3: ('not', 'HKR'), -2: ('not', 'P'), -1: ('not', 'R'), 1: ('in', 'FLWY'), 2: ('not', 'P')},
        {-3: ('not', 'HKR'), -2: ('not', 'P'), -1: ('in', 'FLWY'), 1: ('any',), 2: ('not', 'P')}],
    'proline endopeptidase': [{-2: ('in', 'HKR'), -1: ('in', 'P'), 1: ('not', 'P')}],
    'proteinase k': [{-1: ('in', 'AEFILTVWY')}],
    'staphylococcal peptidase i': [{-2: ('not', 'E'), -1: ('in', 'E')}],
    'thermolysin': [{-1: ('not', 'DE'), 1: ('in', 'AFILMV')}],
    'thrombin': [
        {-2: ('in', 'G'), -1: ('in', 'R'), 1: ('in', 'G')},
        {-4: ('in', 'AFGILTVM'), -3: ('in', 'AFGILTVW'), -2: ('in', 'P'), -1: ('in', 'R'),
            1: ('not', 'DE'), 2: ('not', 'DE')}],
    'trypsin': [
        {-1: ('in', 'KR'), 1: ('not', 'P')},
        {-2: ('in', 'W'), -1: ('in', 'K'), 1: ('in', 'P')},
        {-2: ('in', 'M'), -1: ('in', 'R'), 1: ('in', 'P')}],
    'trypsin_exception': [
        {-2: ('in', 'CD'), -1: ('in', 'K'), 1: ('in', 'D')},
        {-2: ('in', 'C'), -1: ('in', 'K'), 1: ('in', 'HY')},
        {-2: ('in', 'C'), -1: ('in', 'R'), 1: ('in', 'K')},
        {-2: ('in', 'R'), -1: ('in', 'R'), 1: ('in', 'HR')}],
}
ENZYMES = [k for k in RULES if k != 'trypsin_exception']


def _holds(alt, seq, i):
    """ does alternative `alt` hold for the bond between seq[i-1] and seq[i]? """
    n = len(seq)
    for rel, cons in alt.items():
        p = i + rel if rel < 0 else i + rel - 1
        if p < 0 or p >= n:
            return False
        c = seq[p]
        kind = cons[0]
        if kind == 'in':
            if c not in cons[1]:
                return False
        elif kind == 'not':
            if c in cons[1]:
                return False
        else:
            if not (c.isalnum() or c == '_'):
                return False
    return True


def resolve_exception(rule, exception):
    """ documented meaning of --cleavage-exception """
    if exception == 'auto':
        return 'trypsin_exception' if rule == 'trypsin' else None
    return exception


def sites(seq:str, rule:str, exception=None):
    """ cleavage sites: indices i (1..len-1) such that the bond before seq[i] is cut """
    exception = resolve_exception(rule, exception)
    out = []
    alts = RULES[rule]
    exc = RULES[exception] if exception else None
    for i in range(1, len(seq)):
        if any(_holds(a, seq, i) for a in alts):
            if exc and any(_holds(a, seq, i) for a in exc):
                continue
            out.append(i)
    return out


def _may_hold(alt, seq, i):
    """ could alternative `alt` hold for the bond before seq[i] given suitable flanking
    residues? constraints on positions outside seq count as satisfiable """
    n = len(seq)
    for rel, cons in alt.items():
        p = i + rel if rel < 0 else i + rel - 1
        if p < 0 or p >= n:
            continue
        c = seq[p]
        if cons[0] == 'in' and c not in cons[1]:
            return False
        if cons[0] == 'not' and c in cons[1]:
            return False
    return True


def possible_sites(seq:str, rule:str, exception=None):
    """ internal bonds of a peptide that may be cleavage sites in some sequence context (an
    upper bound of its missed cleavages; exceptions are ignored: they only remove sites) """
    return [i for i in range(1, len(seq)) if any(_may_hold(a, seq, i) for a in RULES[rule])]


@lru_cache(maxsize=200000)
def mass(pep:str) -> float:
    return molecular_weight(pep, 'protein')


MASS_EPS = 1e-6


def keep(pep, p, strict=True):
    """ length / mass / alphabet filter. strict=False also keeps peptides within MASS_EPS of
    the mass threshold (floating point band: they may or may not be reported). """
    if not p['min_length'] <= len(pep) <= p['max_length']:
        return False
    if 'X' in pep or '*' in pep:
        return False
    m = mass(pep)
    if strict:
        return m > p['min_mw'] + MASS_EPS
    return m > p['min_mw'] - MASS_EPS


def digest(protein:str, p:dict, m_removal=True, strict=True, closed=True, min_end=None,
        spans=False, site_list=None):
    """ all digestion products with <= miscleavage missed sites that pass the filters.
    p: dict(rule, exception, miscleavage, min_length, max_length, min_mw)
    m_removal: the first product is also reported without its leading M
    closed=False: the C-terminal end is open (no stop seen): products touching it are dropped
    min_end: only products ending after this residue index
    spans: return {(start, end, peptide)} instead of {peptide}
    site_list: cleavage sites to use instead of those of `protein` read in isolation """
    if site_list is None:
        site_list = sites(protein, p['rule'], p.get('exception'))
    ss = sorted(set([0] + [s for s in site_list if 0 < s < len(protein)] + [len(protein)]))
    out = set()
    for i in range(len(ss) - 1):
        for j in range(i + 1, min(i + p['miscleavage'] + 1, len(ss) - 1) + 1):
            if not closed and ss[j] == len(protein):
                continue
            if min_end is not None and ss[j] <= min_end:
                continue
            pep = protein[ss[i]:ss[j]]
            cands = [(ss[i], pep)]
            if i == 0 and m_removal and pep.startswith('M'):
                cands.append((1, pep[1:]))
            for st, c in cands:
                if c and keep(c, p, strict):
                    out.add((st, ss[j], c) if spans else c)
    return out


def context_site_lists(prot, ups, downs, rule, exception=None):
    """ distinct cleavage-site lists of `prot` when its bonds are judged with flanking context:
    each combination of an upstream string from `ups` and a downstream string from `downs`
    ('' = read in isolation, which is always included, as None, first). The graph-based
    commands see the in-frame translation of the 5' flank and the stop symbol, the
    sequence-based digestion sees neither; rules with multi-residue windows (caspases,
    thrombin, pepsin, ...) can differ near the two ends """
    base = sites(prot, rule, exception)
    out = [None]
    seen = {tuple(base)}
    for up in set(ups) | {''}:
        for down in set(downs) | {''}:
            n = len(up)
            sl = [x - n for x in sites(up + prot + down, rule, exception)
                if n < x < n + len(prot)]
            if tuple(sl) not in seen:
                seen.add(tuple(sl))
                out.append(sl)
    return out


def canonical_pool(proteins, p, strict=True):
    """ proteins: iterable of (sequence, cds_start_nf). Leading X removed, cut at first '*',
    digested; each peptide also with I->L """
    pool = set()
    for seq, start_nf in proteins:
        seq = seq.lstrip('X')
        k = seq.find('*')
        if k >= 0:
            seq = seq[:k]
        for pep in digest(seq, p, m_removal=not start_nf, strict=strict):
            pool.add(pep)
            pool.add(pep.replace('I', 'L'))
    return pool
