""" Generators of GVF inputs (small variants, alternative splicing, fusions, circRNAs)
and the GVF text writer of the model. Records are plain dicts in GENE coordinates, the
representation the bundled parsers produce. """
from __future__ import annotations
from vf.model import Ref

GVF_HEAD = ['##fileformat=VCFv4.2', '##mopepgen_version=1.4.6', '##parser={parser}',
    '##reference_index=', '##genome_fasta=', '##annotation_gtf=', '##source={source}',
    '##CHROM=<Description="Gene ID">', '#CHROM\tPOS\tID\tREF\tALT\tQUAL\tFILTER\tINFO']

PARSER_OF = {'small': 'parseVEP', 'as': 'parseRMATS', 'fusion': 'parseSTARFusion',
    'circ': 'parseCIRCexplorer', 'res': 'parseREDItools'}
SOURCE_OF = {'small': 'gSNP', 'as': 'AltSplice', 'fusion': 'Fusion', 'circ': 'circRNA',
    'res': 'RNAEditing'}


def small_id(r):
    if r.get('res'):
        return f"RES-{r['g'] + 1}-{r['ref']}-{r['alt']}"
    if len(r['ref']) == len(r['alt']) == 1:
        return f"SNV-{r['g'] + 1}-{r['ref']}-{r['alt']}"
    if len(r['ref']) == 1 or len(r['alt']) == 1:
        return f"INDEL-{r['g'] + 1}-{r['ref']}-{r['alt']}"
    return f"MNV-{r['g'] + 1}-{r['ref']}-{r['alt']}"


def record_id(r):
    if r['kind'] == 'small':
        return small_id(r)
    return r['id']


def gvf_line(ref:Ref, r) -> str:
    g = ref.gene_of(r['tx'])
    gseq = ref.gene_seq(g['id'])
    common = f"TRANSCRIPT_ID={r['tx']};GENE_SYMBOL={g['name']};GENOMIC_POSITION={g['chrom']}:1-2"
    if r['kind'] == 'small':
        return f"{g['id']}\t{r['g'] + 1}\t{small_id(r)}\t{r['ref']}\t{r['alt']}\t.\t.\t{common}"
    if r['kind'] == 'as':
        if r['as'] == 'del':
            return (f"{g['id']}\t{r['start'] + 1}\t{r['id']}\t{gseq[r['start']]}\t<DEL>\t.\t.\t"
                f"TRANSCRIPT_ID={r['tx']};START={r['start'] + 1};END={r['end']};"
                f"GENE_SYMBOL={g['name']};GENOMIC_POSITION={g['chrom']}:1-2")
        if r['as'] == 'ins':
            return (f"{g['id']}\t{r['start'] + 1}\t{r['id']}\t{gseq[r['start']]}\t<INS>\t.\t.\t"
                f"TRANSCRIPT_ID={r['tx']};DONOR_START={r['dstart'] + 1};DONOR_END={r['dend']};"
                f"DONOR_GENE_ID={g['id']};COORDINATE=gene;GENE_SYMBOL={g['name']};"
                f"GENOMIC_POSITION={g['chrom']}:1-2")
        return (f"{g['id']}\t{r['start'] + 1}\t{r['id']}\t{gseq[r['start']]}\t<SUB>\t.\t.\t"
            f"TRANSCRIPT_ID={r['tx']};START={r['start'] + 1};END={r['end']};"
            f"DONOR_START={r['dstart'] + 1};DONOR_END={r['dend']};DONOR_GENE_ID={g['id']};"
            f"COORDINATE=gene;GENE_SYMBOL={g['name']};GENOMIC_POSITION={g['chrom']}:1-2")
    if r['kind'] == 'fusion':
        ag = ref.gene_of(r['atx'])
        refnt = gseq[r['dpos']] if r['dpos'] < len(gseq) else 'A'
        return (f"{g['id']}\t{r['dpos'] + 1}\t{r['id']}\t{refnt}\t<FUSION>\t.\t.\t"
            f"TRANSCRIPT_ID={r['tx']};GENE_SYMBOL={g['name']};GENOMIC_POSITION={g['chrom']}:1:1;"
            f"ACCEPTER_GENE_ID={ag['id']};ACCEPTER_TRANSCRIPT_ID={r['atx']};"
            f"ACCEPTER_SYMBOL={ag['name']};ACCEPTER_POSITION={r['apos'] + 1};"
            f"ACCEPTER_GENOMIC_POSITION={ag['chrom']}:1:1")
    if r['kind'] == 'circ':
        start = r['frags'][0][0]
        off = ','.join(str(a - start) for a, _ in r['frags'])
        ln = ','.join(str(b - a) for a, b in r['frags'])
        intr = ','.join(str(x) for x in r.get('introns', []))
        return (f"{g['id']}\t{start}\t{r['id']}\t.\t.\t.\t.\tOFFSET={off};LENGTH={ln};"
            f"INTRON={intr};TRANSCRIPT_ID={r['tx']};GENE_SYMBOL={g['name']};"
            f"GENOMIC_POSITION={g['chrom']}:1:2")
    raise ValueError(r['kind'])


def file_kind(r):
    if r['kind'] == 'small' and r.get('res'):
        return 'res'
    return r['kind']


def write_gvfs(ref:Ref, records, d, split=None):
    """ write one GVF per (kind, file index); records of one transcript are contiguous.
    split: optional function record -> extra file key. Returns list of paths. """
    groups = {}
    for r in records:
        key = (file_kind(r), r.get('file', 0) if split is None else split(r))
        groups.setdefault(key, []).append(r)
    paths = []
    for (kind, fi), recs in sorted(groups.items(), key=lambda x: (str(x[0][0]), str(x[0][1]))):
        order = []
        for r in recs:
            if r['tx'] not in order:
                order.append(r['tx'])
        lines = [l.format(parser=PARSER_OF[kind], source=SOURCE_OF[kind] + (str(fi) if fi else ''))
            for l in GVF_HEAD]
        for tx in order:
            for r in recs:
                if r['tx'] == tx:
                    lines.append(gvf_line(ref, r))
        path = d/f'{kind}_{fi}.gvf'
        path.write_text('\n'.join(lines) + '\n')
        paths.append(path)
    return paths


# ------------------------------------------------------------------ generators
def anchors(ref:Ref, tid):
    """ interesting transcript positions: start/stop/Sec codons, exon junctions """
    t = ref.tx(tid)
    n = len(ref.tx_genomic(tid))
    out = []
    if t.get('cds'):
        out += [t['cds'][0], t['cds'][0] + 3, t['cds'][1], max(0, t['cds'][1] - 3)]
        out += list(t.get('secs', []))
    tg = ref.tx_gene(tid)
    for i in range(1, n):
        if tg[i] != tg[i - 1] + 1:
            out.append(i)
    return [min(max(0, x), n - 1) for x in out]


def gen_small(d, ref:Ref, tid, n, spread=12, allow_spanning=False, center=None, kinds=None):
    """ n small variants (gene coords) clustered around a centre in transcript tid """
    tseq = ref.tx_seq(tid)
    tg = ref.tx_gene(tid)
    gseq = ref.gene_seq(ref.gene_of(tid)['id'])
    t = ref.tx(tid)
    ln = len(tseq)
    if center is None:
        if d.chance(0.35):
            center = d.choice(anchors(ref, tid) or [ln // 2])
        elif t.get('cds'):
            center = d.randint(t['cds'][0], min(ln - 1, t['cds'][1]))
        else:
            center = d.randint(0, ln - 1)
    out = []
    seen = set()
    kinds = kinds or ['snv', 'snv', 'ins', 'del', 'snv', 'mnv', 'adj']
    for _ in range(n):
        p = max(1, min(ln - 2, center + d.randint(-spread, spread)))
        kind = d.choice(kinds)
        g0 = tg[p]
        if kind == 'adj':
            # two SNVs on neighbouring nucleotides (the tool merges them into an MNV)
            for q in (p, p + 1):
                if q < ln and tg[q] == g0 + (q - p):
                    refa = gseq[tg[q]]
                    alt = d.choice([x for x in 'ACGT' if x != refa])
                    key = (tg[q], refa, alt)
                    if key not in seen and not any(k[0] == tg[q] for k in seen):
                        seen.add(key)
                        out.append(dict(kind='small', tx=tid, g=tg[q], ref=refa, alt=alt))
            continue
        if kind == 'snv':
            refa = gseq[g0]
            alt = d.choice([x for x in 'ACGT' if x != refa])
        elif kind == 'ins':
            refa = gseq[g0]
            alt = refa + d.letters('ACGT', d.randint(1, 4))
        elif kind == 'del':
            k = d.randint(1, 4)
            refa = gseq[g0:g0 + 1 + k]
            alt = refa[0]
        else:
            k = d.randint(2, 3)
            refa = gseq[g0:g0 + k]
            alt = ''.join(d.choice([x for x in 'ACGT' if x != c]) for c in refa)
        if g0 + len(refa) > len(gseq) or len(refa) < 1:
            continue
        if not allow_spanning:
            # all reference bases must be consecutive positions of the transcript
            if p + len(refa) > ln or any(tg[p + i] != g0 + i for i in range(len(refa))):
                continue
        key = (g0, refa, alt)
        if key in seen:
            continue
        seen.add(key)
        out.append(dict(kind='small', tx=tid, g=g0, ref=refa, alt=alt))
    return out


def gen_as(d, ref:Ref, tid, n=1):
    """ alternative-splicing records on transcript tid: exon deletion, intron retention
    (insertion), exon substitution by (part of) the preceding intron """
    ex = ref.exons_gene(tid)
    out = []
    kinds = d.sample(['del', 'ins', 'sub'], n)
    for kind in kinds:
        if kind == 'del' and len(ex) >= 3:
            a, b = ex[d.randint(1, len(ex) - 2)]
            out.append(dict(kind='as', tx=tid, id=f'SE-{a}-{b}', start=a, end=b, **{'as': 'del'}))
        elif kind == 'ins' and len(ex) >= 2:
            k = d.randint(0, len(ex) - 2)
            pos = ex[k][1] - 1
            ds, de = ex[k][1], ex[k + 1][0]
            if de - ds < 1:
                continue
            out.append(dict(kind='as', tx=tid, id=f'RI-{ds}-{de}', start=pos, dstart=ds, dend=de,
                **{'as': 'ins'}))
        elif kind == 'sub' and len(ex) >= 3:
            k = d.randint(1, len(ex) - 2)
            a, b = ex[k]
            ds, de = ex[k - 1][1], a
            if de - ds < 4:
                continue
            ds2 = d.randint(ds, de - 3)
            de2 = d.randint(ds2 + 2, de)
            out.append(dict(kind='as', tx=tid, id=f'MXE-{a}-{ds2}', start=a, end=b, dstart=ds2,
                dend=de2, **{'as': 'sub'}))
    return out


def gen_fusion(d, ref:Ref, dtx, atx, intronic_p=0.3):
    """ fusion donor transcript dtx -> acceptor transcript atx; breakpoints in gene coords:
    dpos = first excluded donor gene position, apos = first included acceptor position """
    dg = ref.tx_gene(dtx)
    ag = ref.tx_gene(atx)
    if len(dg) < 6 or len(ag) < 6:
        return None

    def pick(tg, lo, hi):
        exg = sorted(set(tg))
        intr = [g for g in range(exg[0], exg[-1]) if g not in set(exg)]
        if intr and d.chance(intronic_p):
            return d.choice(intr)
        return tg[d.randint(lo, hi)]
    last_inc = pick(dg, 3, len(dg) - 2)
    first_inc = pick(ag, 1, len(ag) - 4)
    return dict(kind='fusion', tx=dtx, atx=atx, dpos=last_inc + 1, apos=first_inc,
        id=f'FUSION-{dtx}:{last_inc + 1}-{atx}:{first_inc}')


def gen_circ(d, ref:Ref, tid, intron_p=0.0):
    ex = ref.exons_gene(tid)
    # circRNAs of a few nucleotides do not exist (CIRCexplorer reports hundreds of nt; the
    # tool unrolls four copies): at least 30 nt, else the whole transcript
    for _ in range(6):
        i = d.randint(0, len(ex) - 1)
        j = d.randint(i, len(ex) - 1)
        if sum(b - a for a, b in ex[i:j + 1]) >= 30:
            break
    else:
        i, j = 0, len(ex) - 1
    frags = [list(x) for x in ex[i:j + 1]]
    start, end = frags[0][0], frags[-1][1]
    return dict(kind='circ', tx=tid, frags=frags, introns=[], id=f'CIRC-{tid}-{start}:{end}')


def gen_nested(d, ref:Ref, tid, as_rec, n=2):
    """ small variants inside the donor range of an alternative-splicing insertion /
    substitution record (intronic for the transcript, part of the isoform the record creates);
    adjacent SNV pairs are frequent (the tool merges them into an MNV) """
    gseq = ref.gene_seq(ref.gene_of(tid)['id'])
    lo, hi = as_rec['dstart'], as_rec['dend']
    out = []
    used = set()
    for _ in range(n):
        if hi - lo < 3:
            break
        g0 = d.randint(lo, hi - 2)
        for g in ((g0, g0 + 1) if d.chance(0.6) else (g0,)):
            if g in used or g >= hi:
                continue
            used.add(g)
            refa = gseq[g]
            out.append(dict(kind='small', tx=tid, g=g, ref=refa,
                alt=d.choice([x for x in 'ACGT' if x != refa])))
    return out
