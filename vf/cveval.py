""" Shared engine of the callVariant-family checks (C01-C04): case generator, tool run,
oracle bounds, header witnesses, output hygiene. One tool run, several verdicts. """
from __future__ import annotations
import os
import itertools
from hypothesis import strategies as st
from vf.dr import D
from vf import refgen, vargen, enz, drive, cvmodel as M
from vf.model import Ref, write_reference, translate

PEPSINS = ['pepsin ph1.3', 'pepsin ph2.0']
# rules that cut rarely (long products spanning many variants): a long tail of rare
# discrepancies (about 5e-5 per case) lives here -> extended domain only
RARE_CUTTERS = [e for e in enz.ENZYMES if e.startswith('caspase')] + ['enterokinase',
    'factor xa', 'granzyme b', 'thrombin', 'hydroxylamine', 'bnps-skatole',
    'iodosobenzoic acid', 'ntcb', 'proline endopeptidase']
# strict domain: the remaining 18 rules, trypsin weighted up
STRICT_ENZYMES = [e for e in enz.ENZYMES if e not in PEPSINS and e not in RARE_CUTTERS] \
    + ['trypsin'] * 8
ALL_ENZYMES = enz.ENZYMES + ['trypsin'] * 8


def known_domain_findings(case):
    """ ids of open findings whose (input-side) signature this case matches; used by the
    wild domain of C01-C03 to classify a completeness/header discrepancy """
    out = []
    o = case['opts']
    if o['rule'] in PEPSINS:
        out.append('CV-pepsin')
    if o['rule'] in RARE_CUTTERS:
        out.append('CV-rare-cutter-tail')
    if enz.resolve_exception(o['rule'], o.get('exception')) == 'trypsin_exception':
        out.append('CV-trypsin-exception')
    return out


def gen_opts(d, enzymes=None, alt=True, limits=True, exceptions=(None,)):
    if os.environ.get('VERIF_ENZYMES'):     # calibration runs only
        enzymes = os.environ['VERIF_ENZYMES'].split(',')
    rule = d.choice(enzymes or STRICT_ENZYMES)
    o = dict(rule=rule,
        exception=d.choice(list(exceptions)) if rule == 'trypsin' else d.choice([None, 'auto']))
    if limits:
        o.update(miscleavage=d.choice([0, 1, 2, 2, 3]), min_length=d.choice([5, 7, 7, 8]),
            max_length=d.choice([12, 25, 25, 30]), min_mw=float(d.choice([0, 500, 500, 700])))
    else:
        o.update(miscleavage=2, min_length=7, max_length=25, min_mw=500.)
    if alt:
        o['sect'] = d.chance(0.3)
        o['w2f'] = d.chance(0.3)
    return o


def gen_case(d, family='small', enzymes=None, n_small=(1, 5), ref_kw=None, alt=True,
        limits=True, novel=True, exceptions=(None,), spread=12):
    """ one callVariant case of the given family """
    # pylint: disable=too-many-branches,too-many-locals
    # cds_start_NF / mRNA_end_NF transcripts are part of the linear families (12 % each tag)
    kw = dict(n_genes=(1, 1), max_tx=1, p_nf=0.12)
    want_plant = family == 'circ' and d.chance(0.35)
    if family == 'circ':
        # exons of 30 nt or more: circRNAs of a few nucleotides do not exist
        kw = dict(n_genes=(1, 1), max_tx=1, p_nf=0.0, exon_len=(30, 70))
        if want_plant:
            kw.update(p_coding=0.25, p_sec=0.0)
    if family == 'fusion':
        kw = dict(n_genes=(2, 2), max_tx=1, p_nf=0.0)
    if family == 'fuscirc':
        kw = dict(n_genes=(2, 2), max_tx=1, p_nf=0.0, n_exons=(2, 3), exon_len=(20, 70))
    if family in ('as', 'as_nested'):
        kw = dict(n_genes=(1, 1), max_tx=1, p_nf=0.12, n_exons=(2, 4))
    if family == 'multi':
        kw = dict(n_genes=(1, 2), max_tx=2, p_nf=0.12)
    kw.update(ref_kw or {})
    refd = refgen.gen_reference(d, **kw)
    ref = Ref(refd)
    intragenic = False
    if family == 'fusion' and d.chance(0.25):
        # a fusion between two isoforms of one gene (read-through / intragenic rearrangement)
        for _ in range(4):
            cand = refgen.gen_reference(d, **dict(kw, n_genes=(1, 1), max_tx=3,
                n_exons=(2, 4)))
            if len(Ref(cand).txs) >= 2:
                refd, ref, intragenic = cand, Ref(cand), True
                break
    records = []
    tids = list(ref.txs)
    if family == 'small' and d.chance(0.08):
        planted = plant_lookbehind_gain(d, refd, tids[0])
        if planted:
            refd, records = planted
            ref = Ref(refd)
            opts = gen_opts(d, ['trypsin'], alt=alt, limits=limits, exceptions=exceptions)
            opts.update(miscleavage=d.choice([1, 2, 2, 3]), min_length=5)
            return dict(family='small', ref=refd, records=records, opts=opts,
                planted='trypsin_lookbehind')
    if family in ('small', 'multi'):
        for tid in tids:
            if family == 'multi' and d.chance(0.25):
                continue
            t = ref.tx(tid)
            n = len(ref.tx_seq(tid))
            if t.get('cds') and 'mRNA_end_NF' not in t.get('tags', []) and \
                    n - t['cds'][1] >= 15 and d.chance(0.2):
                # stop-codon geometry: a record on one of the three stop-codon bases (stop
                # lost) plus records further downstream in the read-through region
                e = t['cds'][1]
                records += vargen.gen_small(d, ref, tid, 1, spread=0, center=e + d.randint(0, 2),
                    kinds=['snv', 'snv', 'snv', 'del', 'ins'])
                records += vargen.gen_small(d, ref, tid, d.randint(1, 3), spread=8,
                    center=d.randint(e + 6, n - 3), kinds=['snv', 'snv', 'ins', 'del'])
                if d.chance(0.4):
                    records += vargen.gen_small(d, ref, tid, d.randint(1, 2), spread=spread)
                continue
            records += vargen.gen_small(d, ref, tid, d.randint(*n_small), spread=spread)
    elif family in ('as', 'as_nested'):
        tid = tids[0]
        records += vargen.gen_as(d, ref, tid, d.randint(1, 2))
        if d.chance(0.6):
            records += vargen.gen_small(d, ref, tid, d.randint(1, 3))
        if family == 'as_nested':
            # variants inside the inserted intronic segment (header checks only: the
            # haplotype model does not apply records inside inserted segments)
            for r in [x for x in records if x['kind'] == 'as' and x['as'] in ('ins', 'sub')]:
                records += vargen.gen_nested(d, ref, tid, r, d.randint(1, 3))
    elif family == 'fusion':
        dtx, atx = tids[0], tids[1]
        if d.chance(0.5):
            dtx, atx = atx, dtx
        f = vargen.gen_fusion(d, ref, dtx, atx)
        if f:
            records.append(f)
            if d.chance(0.25):
                # a second fusion of the same donor breakpoint with another acceptor
                # breakpoint (parsers emit one record per donor / acceptor pair)
                f2 = vargen.gen_fusion(d, ref, dtx, atx)
                if f2 and f2['apos'] != f['apos']:
                    f2['dpos'] = f['dpos']
                    f2['id'] = f"FUSION-{dtx}:{f2['dpos']}-{atx}:{f2['apos']}"
                    records.append(f2)
        if d.chance(0.5):
            records += vargen.gen_small(d, ref, dtx, d.randint(1, 3))
    elif family == 'fuscirc':
        # one transcript that is fusion donor, circRNA host and carries small variants: the
        # three processing units share the transcript's record series
        dtx, atx = tids[0], tids[1]
        if d.chance(0.5):
            dtx, atx = atx, dtx
        for _ in range(d.choice([1, 1, 2])):
            f = vargen.gen_fusion(d, ref, dtx, atx, intronic_p=0.15)
            if f and all(f['id'] != r.get('id') for r in records):
                records.append(f)
        records.append(vargen.gen_circ(d, ref, dtx))
        records += vargen.gen_small(d, ref, dtx, d.randint(1, 3), spread=40)
    elif family == 'circ':
        tid = tids[0]
        records.append(vargen.gen_circ(d, ref, tid))
        planted = plant_circ_start(d, refd, tid, records[0]) if want_plant else None
        if planted:
            # a circRNA ORF that runs round the loop more than once, with records on its
            # start codon and in the codon in front of it
            refd, more, residue = planted
            records += more
            opts = gen_opts(d, ['trypsin', 'trypsin', 'lysc' if residue == 'K' else 'arg-c'],
                alt=False, limits=limits, exceptions=exceptions)
            return dict(family='circ', ref=refd, records=records, opts=opts,
                planted='circ_start_codon')
        if d.chance(0.6):
            records += vargen.gen_small(d, ref, tid, d.randint(1, 3), spread=25)
    opts = gen_opts(d, enzymes, alt=alt and family in ('small', 'multi'), limits=limits,
        exceptions=exceptions)
    if alt and family not in ('small', 'multi') and d.chance(0.25):
        # W>F reassignment on fusion / circRNA / alternative-splicing calls as well
        opts['w2f'] = True
    if os.environ.get('VERIF_CFG'):     # calibration runs only
        import json as _json
        cfg = _json.loads(os.environ['VERIF_CFG'])
        opts.update(cfg.get('opts', {}))
        if cfg.get('no_mnv'):
            records = [r for r in records if not (r['kind'] == 'small' and len(r['ref']) > 1
                and len(r['alt']) > 1)]
    if novel and family in ('small', 'multi') and d.chance(0.15):
        opts['coding_novel_orf'] = True
    case = dict(family=family, ref=refd, records=records, opts=opts)
    if intragenic:
        case['intragenic'] = True
    return case


def plant_lookbehind_gain(d, refd, tid):
    """ trypsin cuts K|P and R|P only behind W resp. M (ExPASy: WK|P, MR|P). Plant
    [KR] x K P (or [KR] x R P) into the CDS, where codon x is one SNV away from W (M), and
    return records: the SNV that creates the site, a second variant a few codons downstream
    and optionally one upstream. The gained site lies right behind another site, so the
    residue that creates it is the first residue of its peptide. """
    import copy
    from vf.model import COMP
    ref = Ref(refd)
    t = ref.tx(tid)
    g = ref.gene_of(tid)
    if not t.get('cds') or 'cds_start_NF' in t.get('tags', []):
        return None
    s, e = t['cds']
    ncod = (e - s) // 3
    if ncod < 14:
        return None
    idx = ref.tx_genomic(tid)
    tg = ref.tx_gene(tid)
    secs = set(t.get('secs', []))
    c0 = s + 3 * d.randint(2, ncod - 10)
    span = range(c0, c0 + 12)
    if any(p in secs or p + 1 in secs or p + 2 in secs for p in span) or \
            any(abs(idx[p + 1] - idx[p]) != 1 for p in range(c0, c0 + 11)):
        return None
    which = d.choice(['W', 'M'])
    if which == 'W':
        near, target, pos_in_codon = d.choice([('TGT', 'TGG', 2), ('TGC', 'TGG', 2), ('CGG', 'TGG', 0),
            ('GGG', 'TGG', 0), ('TCG', 'TGG', 1), ('TTG', 'TGG', 1)])
        codons = [d.choice(['AAA', 'AGA']), near, 'AAG', 'CCA']
    else:
        near, target, pos_in_codon = d.choice([('ATA', 'ATG', 2), ('ATC', 'ATG', 2), ('CTG', 'ATG', 0),
            ('GTG', 'ATG', 0), ('AAG', 'ATG', 1), ('ACG', 'ATG', 1)])
        codons = [d.choice(['AAA', 'AGA']), near, 'CGT', 'CCA']
    new = copy.deepcopy(refd)
    ch = list(new['chroms'][g['chrom']])
    for k, nt in enumerate(''.join(codons)):
        gp = idx[c0 + k]
        ch[gp] = nt if g['strand'] == 1 else nt.translate(COMP)
    new['chroms'][g['chrom']] = ''.join(ch)
    ref2 = Ref(new)
    gseq = ref2.gene_seq(g['id'])
    p = c0 + 3 + pos_in_codon
    records = [dict(kind='small', tx=tid, g=tg[p], ref=gseq[tg[p]], alt=target[pos_in_codon])]
    if records[0]['ref'] == records[0]['alt']:
        return None
    records += vargen.gen_small(d, ref2, tid, d.randint(1, 2), spread=6,
        center=min(e - 2, c0 + 12 + 3 * d.randint(0, 3)), kinds=['snv', 'snv', 'ins', 'del'])
    if d.chance(0.4):
        records += vargen.gen_small(d, ref2, tid, 1, spread=6, center=max(s + 4, c0 - 9),
            kinds=['snv'])
    seen = set()
    uniq = []
    for r in records:
        k = (r['g'], r['ref'], r['alt'])
        if k not in seen and not any(x['g'] == r['g'] for x in uniq):
            seen.add(k)
            uniq.append(r)
    return new, uniq


def plant_exception_between_sites(d, refd, tid):
    """ trypsin's exception rules ([CD]K|D, CK|[HY]: no cut) inside a stretch of reference
    sequence that holds several ordinary sites: rewrite 19 codons of the CDS to
    x x K x x x <motif> x x x R x x K x x x (x: neither K, R, P, C nor D) and return one SNV
    in front of the stretch and one behind it, so that the stretch is one shared node between
    two variant bubbles and is cut more than once. The motif itself is reference sequence;
    no record touches it. """
    import copy
    from vf.model import COMP
    ref = Ref(refd)
    t = ref.tx(tid)
    g = ref.gene_of(tid)
    if not t.get('cds') or 'cds_start_NF' in t.get('tags', []):
        return None
    s, e = t['cds']
    ncod = (e - s) // 3
    if ncod < 30:
        return None
    idx = ref.tx_genomic(tid)
    tg = ref.tx_gene(tid)
    secs = set(t.get('secs', []))
    n_win = 19
    c0 = s + 3 * d.randint(4, ncod - n_win - 4)
    lo, hi = c0 - 9, c0 + 3 * n_win + 9
    if any(p in secs for p in range(lo, hi)) or \
            any(abs(idx[p + 1] - idx[p]) != 1 for p in range(lo, hi - 1)):
        return None
    fill = ['GCT', 'GGT', 'CTT', 'TCT', 'GAA', 'ACT', 'GTT', 'CAA', 'AAT', 'ATT']
    motif = d.choice([['TGT', 'AAA', 'GAT'], ['GAT', 'AAG', 'GAT'], ['TGT', 'AAA', 'CAT'],
        ['TGC', 'AAG', 'TAT']])
    x = lambda: d.choice(fill)
    codons = [x(), x(), d.choice(['AAA', 'AAG', 'CGT']), x(), x(), x()] + motif + \
        [x(), x(), x(), d.choice(['CGT', 'AGA', 'AAA']), x(), x(), d.choice(['AAA', 'AAG']),
        x(), x(), x()]
    new = copy.deepcopy(refd)
    ch = list(new['chroms'][g['chrom']])
    for k, nt in enumerate(''.join(codons)):
        gp = idx[c0 + k]
        ch[gp] = nt if g['strand'] == 1 else nt.translate(COMP)
    new['chroms'][g['chrom']] = ''.join(ch)
    ref2 = Ref(new)
    records = vargen.gen_small(d, ref2, tid, d.randint(1, 2), spread=4, center=c0 - 4,
        kinds=['snv'])
    records += vargen.gen_small(d, ref2, tid, d.randint(1, 2), spread=4,
        center=c0 + 3 * n_win + 4, kinds=['snv'])
    uniq = []
    for r in records:
        if not any(y['g'] == r['g'] for y in uniq):
            uniq.append(r)
    if len(uniq) < 2:
        return None
    from vf.model import translate
    return new, uniq, translate(''.join(codons))


def plant_circ_start(d, refd, tid, circ):
    """ rewrite six bases of the circRNA loop to [KR]-M, in a frame that has no stop codon
    for a whole round (three rounds when the loop length is not a multiple of three), so that
    the ORF that starts at this M comes back to its own start codon. Records: an SNV on one of
    the three start-codon bases (mostly the first), an SNV in the codon in front that
    replaces the K/R (the cleavage site in front of M disappears), sometimes a third record
    nearby. Returns (reference, records) or None. """
    import copy
    from vf.model import COMP
    ref = Ref(refd)
    t = ref.tx(tid)
    g = ref.gene_of(tid)
    idx = ref.tx_genomic(tid)
    tg = ref.tx_gene(tid)
    loop_g = [q for a, b in circ['frags'] for q in range(a, b)]     # gene positions
    n = len(loop_g)
    if n < 30 or any(q not in tg for q in loop_g) or t.get('secs'):
        return None
    pos_tx = {q: i for i, q in enumerate(tg)}
    for _ in range(40):
        k = d.randint(3, n - 3)       # loop index of the A of ATG
        if t.get('cds'):
            s0, e0 = t['cds']
            i0 = pos_tx[loop_g[k - 3]]
            inside = s0 <= i0 < e0 or s0 <= i0 + 5 < e0
            if inside and ((i0 - s0) % 3 != 0 or i0 < s0 + 3 or i0 + 6 > e0 - 3):
                continue
        kr = d.choice(['AAA', 'AAG', 'AGA'])
        new = copy.deepcopy(refd)
        ch = list(new['chroms'][g['chrom']])

        def put(li, nt):
            gp = idx[pos_tx[loop_g[li % n]]]
            ch[gp] = nt if g['strand'] == 1 else nt.translate(COMP)
        gseq0 = ref.gene_seq(g['id'])
        loop = [gseq0[q] for q in loop_g]
        for j, nt in enumerate(kr + 'ATG'):
            loop[k - 3 + j] = nt
            put(k - 3 + j, nt)
        rounds = 1 if n % 3 == 0 else 3
        fixed = set(range(k - 3, k + 3))
        if not t.get('cds'):
            # non-coding host: take the stop codons out of the frame (T>C at the first base,
            # or X>C at the third when the first is planted; C never creates a stop)
            for c in range(k, k + rounds * n, 3):
                cod = ''.join(loop[(c + j) % n] for j in range(3))
                if cod in ('TAA', 'TAG', 'TGA'):
                    j = 0 if (c % n) not in fixed else 2
                    if (c + j) % n in fixed:
                        break
                    loop[(c + j) % n] = 'C'
                    put(c + j, 'C')
        new['chroms'][g['chrom']] = ''.join(ch)
        ref2 = Ref(new)
        gseq = ref2.gene_seq(g['id'])
        loop = ''.join(gseq[q] for q in loop_g)
        unrolled = (loop * (rounds + 1))[k:k + rounds * n + 3]
        if '*' in translate(unrolled):
            continue
        recs = []
        off = d.choice([0, 0, 0, 1, 2])
        a_g = loop_g[k + off]
        recs.append(dict(kind='small', tx=tid, g=a_g, ref=gseq[a_g],
            alt=d.choice([x for x in 'ACGT' if x != gseq[a_g]])))
        m_g = loop_g[k - 2]
        if d.chance(0.8):
            recs.append(dict(kind='small', tx=tid, g=m_g, ref=gseq[m_g], alt='C'))
        if d.chance(0.3):
            recs += [r for r in vargen.gen_small(d, ref2, tid, 1, spread=6,
                center=pos_tx[loop_g[min(n - 1, k + 6)]], kinds=['snv'])
                if all(r['g'] != x['g'] for x in recs)]
        return new, recs, 'R' if kr == 'AGA' else 'K'
    return None


def strategy_for(families, **kw):
    @st.composite
    def s(draw):
        d = D(draw)
        return gen_case(d, family=d.choice(families), **kw)
    return s()


# ------------------------------------------------------------------ running the tool
def run_tool(case, ctx, opts=None, name='case'):
    ref = Ref(case['ref'])
    d = ctx.fresh_dir(name)
    write_reference(ref, d)
    paths = vargen.write_gvfs(ref, case['records'], d)
    if case.get('index_gvfs'):
        # .idx files next to the GVFs (indexGVF), as a user with large inputs would have
        import argparse, importlib
        m = importlib.import_module('moPepGen.cli.index_gvf')
        with drive.quiet():
            for gp in paths:
                m.index_gvf(argparse.Namespace(command='indexGVF', input_path=gp, quiet=True,
                    debug_level=1))
    peps, dups, log = drive.call_variant(d, paths, opts or case['opts'])
    table = []
    tpath = d/'out_peptide_table.txt'
    if tpath.exists():
        for line in open(tpath):
            if line.startswith('#'):
                continue
            table.append(line.rstrip('\n').split('\t'))
    return dict(peps=peps, dups=dups, table=table, dir=d)


def crash_bucket(e):
    import traceback
    tb = traceback.extract_tb(e.__traceback__)
    inner = [f for f in tb if '/moPepGen/' in f.filename]
    where = f'{inner[-1].filename.split("/moPepGen/")[-1]}:{inner[-1].name}' if inner else '?'
    return f'crash:{type(e).__name__}@{where}'


# ------------------------------------------------------------------ oracle bounds
def bounds(case, max_n=9):
    """ per-backbone L/U plus the global canonical pools.
    returns dict(L, U_by_backbone {backbone id: set}, canon_lo, canon_hi, info) """
    ref = Ref(case['ref'])
    opts = case['opts']
    p = M.params_of(opts)
    canon_hi = M.canonical(ref, p, strict=False)     # possible canonical peptides
    canon_lo = M.canonical(ref, p, strict=True)      # certain canonical peptides
    L = set()
    multi = set()
    U_by = {}
    info = {}
    by_tx = {}
    for r in case['records']:
        by_tx.setdefault(r['tx'], []).append(r)
    for tid, recs in by_tx.items():
        lin = [r for r in recs if r['kind'] in ('small', 'as')]
        if lin:
            l, u, inf = M.linear_bounds(ref, tid, lin, opts, max_n=max_n)
            L |= l
            multi |= inf.pop('multi')
            U_by.setdefault(tid, set()).update(u)
            info[tid] = inf
        for r in recs:
            if r['kind'] == 'fusion':
                l, u, inf = M.fusion_bounds(ref, r, recs, opts)
                L |= l
                multi |= l
                U_by.setdefault(r['id'], set()).update(u)
                info[r['id']] = inf
            elif r['kind'] == 'circ':
                l, u, inf = M.circ_bounds(ref, r, recs, opts)
                # the linear products of the host transcript (reference and variant) are
                # excluded from what is demanded of the circRNA call (M11)
                ref_hi = M.reference_products(ref, tid, p, opts, strict=False)
                lin_u = U_by.get(tid, set())
                if not lin:
                    lin_u = set()
                L |= (l - ref_hi - lin_u)
                multi |= (l - ref_hi - lin_u)
                U_by.setdefault(r['id'], set()).update(u)
                info[r['id']] = inf
    return dict(L=L - canon_hi, multi=multi - canon_hi, U_by=U_by, canon_lo=canon_lo,
        canon_hi=canon_hi, info=info)


def parse_header(hdr):
    """ [dict(entry, backbone, ids, orf, index)] """
    out = []
    for entry in hdr.split(' '):
        f = entry.split('|')
        idx = None
        if f[-1].isdigit():
            idx = int(f[-1])
            f = f[:-1]
        backbone = f[0]
        ids = []
        orf = None
        for x in f[1:]:
            if x.startswith('ORF'):
                orf = x
            else:
                ids.append(x)
        out.append(dict(entry=entry, backbone=backbone, ids=ids, orf=orf, index=idx))
    return out


def check_sound_fast(case, res, max_enum=10):
    """ realizability of every reported sequence, using the header entries as witnesses first
    (one haplotype each) and the full may-set enumeration only as a fall-back.
    returns (bad [(seq, header)], n_fallback, inconclusive) """
    ref = Ref(case['ref'])
    bad = []
    pending = []
    for seq, hdr in res['peps'].items():
        ok = False
        for e in parse_header(hdr):
            try:
                if entry_witness(case, ref, seq, e, None) is None:
                    ok = True
                    break
            except OverflowError:
                pass
        if not ok:
            pending.append((seq, hdr))
    if not pending:
        return bad, 0, False
    try:
        b = bounds(case, max_n=max_enum)
    except OverflowError:
        return bad, len(pending), True
    for seq, hdr in pending:
        if not any(seq in u for u in b['U_by'].values()):
            bad.append((seq, hdr))
    return bad, len(pending), False


def check_sound(case, res, b):
    """ every reported sequence is within U of one of the backbones its header names """
    bad = []
    for seq, hdr in res['peps'].items():
        ok = False
        for e in parse_header(hdr):
            if seq in b['U_by'].get(e['backbone'], ()):
                ok = True
                break
        if not ok and seq not in b['canon_lo']:
            # also accept U of any backbone (the header may be the untruthful part: C03)
            if any(seq in u for u in b['U_by'].values()):
                continue
            bad.append((seq, hdr))
    return bad


# ------------------------------------------------------------------ header witnesses (C03)
def entry_witness(case, ref:Ref, seq, e, known_ids):
    """ None if the entry is a truthful witness, else (class, message) """
    # pylint: disable=too-many-return-statements,too-many-branches,too-many-locals
    opts = case['opts']
    p = M.params_of(opts)
    bb = e['backbone']
    alt_ids = [x for x in e['ids'] if x.startswith('SECT-') or x.startswith('W2F-')]
    var_ids = []
    for x in e['ids']:      # ids are a set: merged MNVs repeat their constituents
        if x not in alt_ids and x not in var_ids:
            var_ids.append(x)
    o = dict(opts, sect=any(x.startswith('SECT-') for x in alt_ids),
        w2f=any(x.startswith('W2F-') for x in alt_ids))
    recs_by_id = {}
    for r in case['records']:
        recs_by_id.setdefault((r['tx'], vargen.record_id(r)), r)
    if bb in ref.txs:
        tid = bb
        named = []
        for vid in var_ids:
            r = recs_by_id.get((tid, vid))
            if r is None:
                return ('unknown-id', f'{vid} is not a record of {tid}')
            named.append(r)
        if case.get('family') == 'as_nested' and any(r['kind'] == 'as' and r['as'] in
                ('ins', 'sub') for r in named):
            # entries on an isoform with an inserted intronic segment (which may carry
            # records of its own): the ids are checked above, the product is not re-derived
            # (records inside inserted segments are outside the haplotype model)
            return None
        edits, _ = M.tx_edits(ref, tid, named, M.start_index_of(ref, tid))
        if len(edits) != len(named):
            return ('unusable-id', 'names a record that cannot be applied to the transcript')
        if not M.compatible(edits, strict=False):
            return ('incompatible-ids', 'named records overlap each other')
        coding = bool(ref.tx(tid).get('cds'))
        novel = e['orf'] is not None or not coding
        for reading in ('U', 'stop'):
            prods = M.linear_products(ref, tid, edits, p, o, reading, strict=False,
                novel=novel)
            if seq in prods:
                return None
        return ('not-a-product', 'peptide is not a digestion product of the backbone carrying '
            'exactly the named records')
    rec = None
    for r in case['records']:
        if r['kind'] in ('fusion', 'circ') and r['id'] == bb:
            rec = r
    if rec is None:
        return ('unknown-backbone', f'{bb} is neither a transcript nor a fusion/circRNA id')
    if rec['kind'] == 'fusion':
        named = []
        for vid in var_ids:
            if vid.startswith('1-'):
                r = recs_by_id.get((rec['tx'], vid[2:]))
            elif vid.startswith('2-'):
                r = recs_by_id.get((rec['atx'], vid[2:]))
            else:
                r = None
            if r is None:
                return ('unknown-id', f'{vid} is not a record of the fusion partners')
            named.append(r)
        _, u, _ = M.fusion_bounds(ref, rec, [x for x in named if x['tx'] == rec['tx']], o)
        # exactly the named donor records: rebuild with only that subset applied
        if seq in exact_fusion(ref, rec, named, o, p):
            return None
        return ('not-a-product', 'peptide is not a product of the fusion transcript carrying '
            'exactly the named records')
    named = []
    for vid in var_ids:
        r = recs_by_id.get((rec['tx'], vid))
        if r is None:
            return ('unknown-id', f'{vid} is not a record of {rec["tx"]}')
        named.append(r)
    if seq in exact_circ(ref, rec, named, o, p):
        return None
    return ('not-a-product', 'peptide is not a product of the circRNA carrying exactly the '
        'named records')


def exact_fusion(ref, rec, named, o, p):
    parts = M.fusion_parts(ref, rec)
    if parts is None:
        return set()
    dtx = rec['tx']
    t = ref.tx(dtx)
    edits, _ = M.tx_edits(ref, dtx, [x for x in named if x['tx'] == dtx],
        M.start_index_of(ref, dtx))
    if len(edits) != len(named) or not M.compatible(edits, False):
        return set()
    dlen = parts['dlen']
    dhap = M.apply_edits(ref.tx_seq(dtx)[:dlen], edits)
    fused = dhap + parts['lins'] + parts['rins'] + ref.tx_seq(rec['atx'])[parts['astart']:]
    coding = bool(t.get('cds'))
    res = set()
    secs = [c for c in M.hap_secs(t, edits, fused, 'U') if c + 3 <= len(dhap)] if coding else []
    for ss in (secs, [c for c in secs if c + 3 < len(dhap)]):
        if coding:
            res |= M.orf_products(fused, t['cds'][0], p, secs=ss, strict=False)
        if not coding or o.get('coding_novel_orf'):
            for st_ in M.atg_starts(fused, upto=len(dhap) + len(parts['lins']) +
                    len(parts['rins']) + 1):
                res |= M.orf_products(fused, st_, p, secs=ss, strict=False)
    if o.get('w2f'):
        res = M.add_w2f(res, p, False)
    return res


def exact_circ(ref, rec, named, o, p):
    _, u, _ = M.circ_bounds(ref, rec, [], o)
    if not named:
        return u
    # haplotype with exactly the named records
    gseq = ref.gene_seq(ref.gene_of(rec['tx'])['id'])
    loop = ''
    for a, b in sorted(tuple(f) for f in rec['frags']):
        s = gseq[a:b]
        eds = [M.Edit(x['g'] - a, x['g'] - a + len(x['ref']), x['alt'], '', '', x['g'] - a,
            x['g'] - a + len(x['ref'])) for x in named if a <= x['g'] < b]
        if not M.compatible(eds, False):
            return set()
        loop += M.apply_edits(s, eds)
    res = M.circ_products(loop, p, False, False, strict=False)
    if o.get('w2f'):
        res = M.add_w2f(res, p, False)
    return res


def classify_mislabel(case, ref:Ref, seq, e):
    """ signatures of the open header findings on linear backbones. Searches a compatible
    record set W that yields the peptide and looks at D = W (symmetric difference) named:
      * every record of D ends upstream of the peptide's first nucleotide (reference
        coordinates)                                  -> 'C03-upstream-attribution'
      * every record of D lies within 2 nt of (or overlaps) another supplied record that is in
        W or named (same codon / same position alleles) -> 'C03-crowded-codon-mislabel'
    returns the finding id or None """
    # pylint: disable=too-many-locals,too-many-branches
    tid = e['backbone']
    if tid not in ref.txs:
        return None
    p = M.params_of(case['opts'])
    recs = [r for r in case['records'] if r['tx'] == tid and r['kind'] in ('small', 'as')]
    edits, _ = M.tx_edits(ref, tid, recs, M.start_index_of(ref, tid))
    if len(edits) > 10:
        return None
    by_id = {x.rid: x for x in edits}
    named = {x for x in e['ids'] if not x.startswith(('SECT-', 'W2F-'))}
    t = ref.tx(tid)
    coding = bool(t.get('cds'))
    tseq = ref.tx_seq(tid)
    result = None
    for k in range(0, len(edits) + 1):
        for W in itertools.combinations(edits, k):
            if not M.compatible(W, False):
                continue
            seqw = M.apply_edits(tseq, W)
            starts = [t['cds'][0]] if coding and not e['orf'] else M.atg_starts(seqw)
            secs = M.hap_secs(t, W, seqw, 'U') if coding else []
            for st_ in starts:
                for pr in _prots(seqw, st_, secs):
                    spans = enz.digest(pr, p, strict=False, spans=True)
                    for a, _, pep in spans:
                        cands = {pep} | (M.w2f_forms(pep) if 'W' in pep else set())
                        if seq not in cands:
                            continue
                        hap_pos = st_ + 3 * a
                        delta = 0
                        for ed in sorted(W, key=lambda x: x.s):
                            if ed.s + delta + len(ed.alt) <= hap_pos:
                                delta += len(ed.alt) - (ed.e - ed.s)
                            else:
                                break
                        refpos = hap_pos - delta
                        diff = {x.rid for x in W} ^ named
                        if not all(d_ in by_id for d_ in diff):
                            continue
                        if all(by_id[d_].re <= refpos for d_ in diff):
                            # calibrated on the unchanged tree (21 000 cases): an upstream
                            # record is only ever *omitted* when a frameshifting / MNV / AS
                            # record is involved; haplotypes of plain SNVs are at most
                            # over-stated (both alleles of one position listed)
                            allcls = {x.cls for x in W} | {by_id[n].cls for n in named
                                if n in by_id}
                            omitted = [d_ for d_ in diff if d_ not in named]
                            if allcls <= {'SNV'} and omitted:
                                # ... with one exception seen at about 1e-4: of several
                                # stop-lost SNVs in series only the first is named
                                def stop_lost(x):
                                    rest = M.apply_edits(tseq, [y for y in W if y is not x])
                                    c0 = x.s - (x.s - st_) % 3
                                    return x.s >= st_ and rest[c0:c0 + 3] in ('TAA', 'TAG', 'TGA')
                                sl = sorted((x for x in W if stop_lost(x)), key=lambda x: x.s)
                                if not {d_ for d_ in omitted} <= {x.rid for x in sl[1:]}:
                                    continue
                            return 'C03-upstream-attribution'
                        others = {x.rid for x in W} | {n for n in named if n in by_id}
                        crowded = True
                        for d_ in diff:
                            x = by_id[d_]
                            if not any(o != d_ and by_id[o].rs <= x.re + 2
                                    and x.rs <= by_id[o].re + 2 for o in others):
                                crowded = False
                        if crowded:
                            result = 'C03-crowded-codon-mislabel'
    return result


def _prots(seq, st_, secs):
    """ translations of the ORF at st_: with U at in-frame Sec codons, also truncated there """
    from vf.model import translate
    pr = list(translate(seq[st_:]))
    us = []
    for c in secs:
        if c >= st_ and (c - st_) % 3 == 0 and (c - st_) // 3 < len(pr) and \
                seq[c:c + 3] == 'TGA':
            pr[(c - st_) // 3] = 'U'
            us.append((c - st_) // 3)
    pr = ''.join(pr)
    k = pr.find('*')
    pr = pr[:k] if k >= 0 else pr
    out = [pr]
    for u in us:
        if u < len(pr):
            out.append(pr[:u])
    return out


def _prot(seq, st_):
    from vf.model import translate
    pr = translate(seq[st_:])
    k = pr.find('*')
    return pr[:k] if k >= 0 else pr


def check_headers(case, res):
    """ returns (violations [(class, seq, entry, msg)], known [(id, seq, entry)], stats) """
    ref = Ref(case['ref'])
    seen = {}
    bad, known = [], []
    n_entries = 0
    nontrivial = False
    fusion_donors = {r['tx'] for r in case['records'] if r['kind'] == 'fusion'}
    u_cache = {}
    # inputs in the domain of an open finding (pepsin, ...) are classified there by the caller,
    # not under the rate-capped shape findings
    in_domain = bool(known_domain_findings(case))

    def realizable_somehow(seq, rec):
        # may-set of a fusion / circRNA backbone with ALL its records available
        if rec['id'] not in u_cache:
            recs = [r for r in case['records'] if r['tx'] == rec['tx']]
            if rec['kind'] == 'fusion':
                _, u, _ = M.fusion_bounds(ref, rec, recs, dict(case['opts'], sect=True, w2f=True))
            else:
                _, u, _ = M.circ_bounds(ref, rec, recs, dict(case['opts'], w2f=True))
            u_cache[rec['id']] = u
        return seq in u_cache[rec['id']]
    for seq, hdr in res['peps'].items():
        for e in parse_header(hdr):
            n_entries += 1
            if e['entry'] in seen:
                if e['backbone'] in fusion_donors:
                    known.append(('C03-duplicate-entry-fusion-donor', seq, e['entry']))
                else:
                    bad.append(('duplicate-entry', seq, e['entry'],
                        f'entry also heads {seen[e["entry"]]}'))
            seen[e['entry']] = seq
            var_ids = [x for x in e['ids'] if not x.startswith(('SECT-', 'W2F-'))]
            if len(var_ids) >= 2 or e['backbone'] not in ref.txs:
                nontrivial = True
            w = entry_witness(case, ref, seq, e, None)
            if w is None:
                continue
            if w[0] in ('not-a-product', 'incompatible-ids'):
                k = classify_mislabel(case, ref, seq, e)
                if k:
                    known.append((k, seq, e['entry']))
                    continue
                if not in_domain and \
                        crowded_truncation_signature(case, ref, e['backbone'], seq):
                    known.append(('CV-crowded-truncated-product', seq, e['entry']))
                    continue
            if w[0] == 'not-a-product' and e['backbone'] not in ref.txs:
                rec = [r for r in case['records'] if r.get('id') == e['backbone']][0]
                if realizable_somehow(seq, rec):
                    known.append(('C03-noncanonical-backbone-incomplete-label', seq,
                        e['entry']))
                    continue
                if rec['kind'] == 'circ' and not in_domain and \
                        circ_rare_signature(case, ref, rec, seq):
                    known.append(('CV-circ-copy-inconsistency', seq, e['entry']))
                    continue
            if case.get('family') == 'as_nested' and w[0] in ('not-a-product', 'unusable-id',
                    'incompatible-ids'):
                # inputs with records inside inserted intronic segments are outside the
                # haplotype model: only the existence of ids, the backbone and the
                # uniqueness of entries are judged in this family
                continue
            bad.append((w[0], seq, e['entry'], w[1]))
    return bad, known, dict(n_entries=n_entries, nontrivial=nontrivial)


# ------------------------------------------------------------------ hygiene (C04)
def check_hygiene(case, res, canon_lo):
    p = M.params_of(case['opts'])
    bad = []
    for s in res['dups']:
        bad.append(('duplicate-sequence', s))
    for seq in res['peps']:
        if seq in canon_lo:
            bad.append(('canonical', seq))
        if not p['min_length'] <= len(seq) <= p['max_length']:
            bad.append(('length', seq))
        if 'X' in seq or '*' in seq:
            bad.append(('alphabet', seq))
        elif enz.mass(seq) < p['min_mw'] - enz.MASS_EPS:
            bad.append(('mass', seq))
    # table consistency
    pairs_fasta = set()
    for seq, hdr in res['peps'].items():
        for entry in hdr.split(' '):
            pairs_fasta.add((seq, entry))
    pairs_table = set()
    rows = {}
    for f in res['table']:
        if len(f) < 5:
            bad.append(('table-row', '\t'.join(f)))
            continue
        seq, entry, sub, a, b = f[0], f[1], f[2], int(f[3]), int(f[4])
        pairs_table.add((seq, entry))
        if seq[a:b] != sub:
            bad.append(('table-slice', f'{seq} {entry} [{a}:{b}] = {seq[a:b]} != {sub}'))
        rows.setdefault((seq, entry), []).append((a, b))
    if pairs_table != pairs_fasta:
        bad.append(('table-pairs', str(sorted(pairs_table ^ pairs_fasta)[:3])))
    return bad


# ------------------------------------------------------------------ circRNA rare tail
def circ_rare_signature(case, ref:Ref, rec, seq):
    """ structural signatures of the open finding CV-circ-copy-inconsistency for a sequence
    labelled with circRNA `rec` that is not realizable:
      'mixed'  - realizable if every copy of the loop may carry its own subset of the records
                 (the molecule has one sequence; the tool unrolls four copies and lets a
                 path take different alleles in different copies)
      'suffix' - a proper suffix of a realizable product (the product is cut where a record
                 starts instead of at a cleavage site or ORF start)
    returns the signature name or None """
    if case.get('planted'):
        return None       # planted geometries are clean on the unchanged tree: no tolerance
    opts = dict(case['opts'], w2f=True)
    p = M.params_of(opts)
    recs = [r for r in case['records'] if r['tx'] == rec['tx']]
    try:
        _, u, _ = M.circ_bounds(ref, rec, recs, opts)
    except OverflowError:
        return None
    if any(len(x) > len(seq) and x.endswith(seq) for x in u):
        return 'suffix'
    gseq = ref.gene_seq(ref.gene_of(rec['tx'])['id'])
    frags = sorted(tuple(f) for f in rec['frags'])
    small = [x for x in recs if x['kind'] == 'small' and any(a <= x['g'] and
        x['g'] + len(x['ref']) <= b for a, b in frags)]
    if not small or len(small) > 6:
        return None
    loops = set()
    for k in range(0, len(small) + 1):
        for combo in itertools.combinations(small, k):
            cs = sorted(combo, key=lambda v: v['g'])
            if any(a['g'] + len(a['ref']) > b['g'] for a, b in zip(cs, cs[1:])):
                continue
            out = ''
            for a, b in frags:
                eds = [M.Edit(x['g'] - a, x['g'] - a + len(x['ref']), x['alt'], '', '',
                    x['g'] - a, x['g'] - a + len(x['ref'])) for x in combo if a <= x['g'] < b]
                out += M.apply_edits(gseq[a:b], eds)
            loops.add(out)
    loops = sorted(loops)
    # the peptide (W>F undone where needed) as a stretch of the translation of consecutive
    # copies that carry different allele sets; as few copies as the peptide can span
    shortest = min(len(x) for x in loops)
    ncopies = min(4, (3 * len(seq) + 2) // max(1, shortest) + 2)
    if len(loops) ** ncopies > 60000:
        return None
    targets = {seq}
    if 'F' in seq:
        targets |= {seq[:i] + 'W' + seq[i + 1:] for i, c in enumerate(seq) if c == 'F'}
    # the sequence must be a digestion product (same rule, same limits) of a molecule whose
    # copies differ; a mere stretch of a translation is a digestion-level discrepancy (site
    # choice, missed-cleavage count) and not this finding
    for copies in itertools.product(loops, repeat=ncopies):
        if len(set(copies)) == 1:
            continue
        full = ''.join(copies)
        if not any(t in translate(full[fr:]) for fr in range(3) for t in targets):
            continue
        for st_ in range(0, len(full) - 2):
            if full[st_:st_ + 3] != 'ATG':
                continue
            prods = M.orf_products(full, st_, p, m_removal=True, drop_open=False, strict=False)
            if case['opts'].get('w2f'):
                prods = M.add_w2f(prods, p, False)
            if seq in prods:
                return 'mixed'
    return None


def crowded_truncation_signature(case, ref:Ref, tid, seq):
    """ structural signature of the open finding CV-crowded-truncated-product: on a linear
    backbone whose supplied records overlap one another (two records share a reference
    position: an allele and a deletion at one site, an MNV merged from adjacent SNVs over a
    deletion) the sequence is not realizable but is a proper prefix of a realizable product
    (the product is cut at a record boundary instead of a cleavage site). Returns bool """
    if tid not in ref.txs or case.get('planted'):
        return False
    recs = [r for r in case['records'] if r['tx'] == tid and r['kind'] == 'small']
    spans = sorted((r['g'], r['g'] + len(r['ref'])) for r in recs)
    if not any(a[1] > b[0] for a, b in zip(spans, spans[1:])):
        return False
    lin = [r for r in case['records'] if r['tx'] == tid and r['kind'] in ('small', 'as')]
    try:
        _, u, _ = M.linear_bounds(ref, tid, lin, dict(case['opts'], w2f=True), max_n=12)
    except OverflowError:
        return False
    return seq not in u and any(len(x) > len(seq) and x.startswith(seq) for x in u)
