""" Definitional oracle for callVariant: enumerate haplotypes (compatible subsets of the
records of one backbone), translate, digest, filter. Computes a must-set L and a may-set U
(L within U) per DESIGN.md section 4.3 (M1-M12). No moPepGen import. """
from __future__ import annotations
import itertools
from vf.model import Ref, translate
from vf import enz


# ------------------------------------------------------------------ edits
class Edit:
    """ replace transcript range [s, e) by alt. `anchor`: the record's reference range used
    for compatibility starts at anchor (VCF-style indels and AS records carry the base
    before the change) """
    __slots__ = ('s', 'e', 'alt', 'rid', 'cls', 'rs', 're', 'rec', 'ls', 'u_only')

    def __init__(self, s, e, alt, rid, cls, rs, re_, rec=None):
        self.s, self.e, self.alt, self.rid, self.cls = s, e, alt, rid, cls
        self.rs, self.re = rs, re_      # reference range of the record (incl. anchor base)
        self.rec = rec
        # start used by the liberal (U) compatibility test: AS records without their anchor
        self.ls = s if cls == 'AS' else rs
        self.u_only = False      # usable only under the liberal reading (may-set U)

    def key(self):
        return (self.rs, self.re, self.s, self.e, self.alt, self.rid)


def apply_edits(seq, edits):
    out = []
    last = 0
    for ed in sorted(edits, key=lambda x: (x.s, x.e)):
        out.append(seq[last:ed.s])
        out.append(ed.alt)
        last = ed.e
    out.append(seq[last:])
    return ''.join(out)


def compatible(edits, strict):
    """ M2: reference ranges disjoint (U) and additionally not adjacent (L) """
    es = sorted(edits, key=lambda x: (x.rs, x.re))
    chain = 0
    for a, b in zip(es, es[1:]):
        if strict:
            if a.re == b.rs and a.cls == 'SNV' and b.cls == 'SNV' and chain == 0:
                # two adjacent SNVs are merged into one MNV by the tool (default
                # --max-adjacent-as-mnv 2): the haplotype carrying both is demanded; a run
                # of three is not merged
                chain = 1
                continue
            chain = 0
            if a.re >= b.rs:
                return False
            # an indel may be re-expressed one base to the right by the tool (end
            # inclusion); a neighbour exactly one base further is then adjacent: U only
            if a.cls == 'INDEL' and a.re + 1 >= b.rs:
                return False
        else:
            if a.re > b.ls:
                return False
    return True


def tx_edits(ref:Ref, tid, records, start_index, usable_from=None):
    """ records of transcript tid (gene coords) -> usable Edit objects in transcript coords
    (M1: inside one exon, not before the nucleotide after the start codon; M3: start-codon
    end-inclusion normalisation). Returns (edits, n_ignored) """
    # pylint: disable=too-many-locals,too-many-branches
    from vf.vargen import record_id
    tg = ref.tx_gene(tid)
    g2t = {g: i for i, g in enumerate(tg)}
    tseq = ref.tx_seq(tid)
    gseq = ref.gene_seq(ref.gene_of(tid)['id'])
    n = len(tseq)
    edits = []
    ignored = 0
    for r in records:
        rid = record_id(r)
        if r['kind'] == 'small':
            g0 = r['g']
            k = len(r['ref'])
            if g0 not in g2t:
                ignored += 1
                continue
            p = g2t[g0]
            if p + k > n or any(tg[p + i] != g0 + i for i in range(k)):
                ignored += 1      # spans an exon boundary / runs off the transcript
                continue
            cls = 'SNV' if len(r['ref']) == len(r['alt']) == 1 else \
                ('INDEL' if len(r['ref']) == 1 or len(r['alt']) == 1 else 'MNV')
            refa, alt = r['ref'], r['alt']
            if p < start_index - 1:
                ignored += 1
                continue
            if p == start_index - 1:
                if cls != 'INDEL':
                    ignored += 1
                    continue
                # M3: indel anchored on the last start-codon base: shift one base right
                if p + k >= n:
                    ignored += 1
                    continue
                nxt = tseq[p + k]
                refa = refa[1:] + nxt
                alt = alt[1:] + nxt
                p += 1
            edits.append(Edit(p, p + len(refa), alt, rid, cls, p, p + len(refa), r))
        elif r['kind'] == 'as':
            if r['as'] == 'del':
                if r['start'] not in g2t or (r['end'] - 1) not in g2t:
                    ignored += 1
                    continue
                ts, te = g2t[r['start']], g2t[r['end'] - 1] + 1
                if ts < start_index or te >= n:
                    ignored += 1
                    continue
                edits.append(Edit(ts, te, '', rid, 'AS', ts - 1, te, r))
                # anchored on the last start-codon base: applied by the tool in some
                # geometries only -> permitted, not demanded
                edits[-1].u_only = ts - 1 < start_index
            elif r['as'] == 'ins':
                if r['start'] not in g2t:
                    ignored += 1
                    continue
                tp = g2t[r['start']]
                if tp < start_index - 1:
                    ignored += 1
                    continue
                edits.append(Edit(tp + 1, tp + 1, gseq[r['dstart']:r['dend']], rid, 'AS',
                    tp, tp + 1, r))
                edits[-1].u_only = tp < start_index
            else:
                if r['start'] not in g2t or (r['end'] - 1) not in g2t:
                    ignored += 1
                    continue
                ts, te = g2t[r['start']], g2t[r['end'] - 1] + 1
                if ts < start_index or te >= n:
                    ignored += 1
                    continue
                edits.append(Edit(ts, te, gseq[r['dstart']:r['dend']], rid, 'AS', ts - 1, te, r))
                edits[-1].u_only = ts - 1 < start_index
    return edits, ignored


# ------------------------------------------------------------------ translation
def w2f_forms(pep):
    idxs = [i for i, c in enumerate(pep) if c == 'W']
    out = set()
    for r in range(1, len(idxs) + 1):
        for comb in itertools.combinations(idxs, r):
            t = list(pep)
            for i in comb:
                t[i] = 'F'
            out.add(''.join(t))
    return out


def orf_products(seq, st, p, secs=(), sect=False, m_removal=True, drop_open=False,
        min_end_nt=None, strict=True):
    """ products of the ORF starting at nucleotide st of seq.
    secs: nucleotide positions (in seq) of codons read as U when in frame.
    drop_open: a product touching the 3' end is dropped when no stop codon was seen.
    min_end_nt: keep only products whose last nucleotide index is >= min_end_nt """
    prot = list(translate(seq[st:]))
    for c in secs:
        if c >= st and (c - st) % 3 == 0 and (c - st) // 3 < len(prot) and \
                seq[c:c + 3] == 'TGA':
            prot[(c - st) // 3] = 'U'
    prot = ''.join(prot)
    k = prot.find('*')
    closed = k >= 0
    if closed:
        prot = prot[:k]
    me = None
    if min_end_nt is not None:
        # product [a,b) in residues spans nucleotides st+3a .. st+3b-1; need st+3b > min_end_nt
        me = (min_end_nt - st) // 3
    res = enz.digest(prot, p, m_removal=m_removal, strict=strict,
        closed=closed or not drop_open, min_end=me)
    if sect:
        last_site = max([0] + enz.sites(prot, p['rule'], p.get('exception')))
        for i, ch in enumerate(prot):
            if ch == 'U':
                if strict and drop_open and not closed and i > last_site:
                    # open finding C09-sect-open-tail: a Sec-terminated product inside the
                    # trailing segment of an open-ended translation is not reported by the
                    # tool; permitted (U), not demanded (L)
                    continue
                res |= enz.digest(prot[:i], p, m_removal=m_removal, strict=strict, min_end=me)
    return res


def add_w2f(peps, p, strict):
    extra = set()
    for pep in peps:
        if 'W' in pep:
            for f in w2f_forms(pep):
                if enz.keep(f, p, strict):
                    extra.add(f)
    return peps | extra


def atg_starts(seq, upto=None):
    n = len(seq) - 2 if upto is None else min(len(seq) - 2, upto)
    return [i for i in range(n) if seq[i:i + 3] == 'ATG']


def hap_secs(t, edits, seq, reading):
    """ Sec codon positions in the haplotype. A codon whose reference range overlaps a
    record's range (incl. its anchor base) is ambiguous (M12): read as U only under
    reading == 'U' and only if the three bases are still TGA """
    out = []
    for c in t.get('secs', []):
        touched = False
        delta = 0
        for ed in edits:
            if ed.re <= c:
                delta += len(ed.alt) - (ed.e - ed.s)
            elif ed.rs >= c + 3:
                pass
            else:
                touched = True
        hp = c + delta
        if touched:
            if reading == 'U' and seq[hp:hp + 3] == 'TGA':
                out.append(hp)
        else:
            out.append(hp)
    return out


def linear_products(ref:Ref, tid, edits, p, opts, reading='U', strict=True, novel=None,
        keep_open=False):
    """ products of one haplotype of a linear transcript """
    t = ref.tx(tid)
    seq = apply_edits(ref.tx_seq(tid), edits)
    coding = bool(t.get('cds'))
    secs = hap_secs(t, edits, seq, reading) if coding else []
    res = set()
    nf_start = 'cds_start_NF' in t.get('tags', [])
    # a product that runs into the 3' end of the transcript without meeting a stop codon has
    # an unknown C-terminus: never demanded (L); permitted (U) unless the transcript is
    # mRNA_end_NF
    drop_open = (strict or 'mRNA_end_NF' in t.get('tags', [])) and not keep_open
    if coding:
        # cds_start_NF: the first residue is not known to be the initiator; the tool reports the
        # Met-removed twin when it happens to be M: permitted (U), never demanded (L)
        res |= orf_products(seq, t['cds'][0], p, secs=secs, sect=opts.get('sect', False),
            m_removal=(not nf_start) or (not strict), drop_open=drop_open, strict=strict)
    if novel is None:
        novel = (not coding) or opts.get('coding_novel_orf', False)
    if novel:
        for st in atg_starts(seq):
            res |= orf_products(seq, st, p, secs=secs, sect=opts.get('sect', False),
                m_removal=True, drop_open=drop_open, strict=strict)
    if opts.get('w2f'):
        res = add_w2f(res, p, strict)
    return res


def start_index_of(ref:Ref, tid):
    t = ref.tx(tid)
    return (t['cds'][0] + 3) if t.get('cds') else 3


def params_of(opts):
    return dict(rule=opts.get('rule', 'trypsin'), exception=opts.get('exception'),
        miscleavage=opts.get('miscleavage', 2), min_length=opts.get('min_length', 7),
        max_length=opts.get('max_length', 25), min_mw=opts.get('min_mw', 500.))


def subsets(edits, max_n=9):
    edits = sorted(edits, key=lambda x: x.key())
    if len(edits) > max_n:
        raise OverflowError(f'{len(edits)} usable records on one backbone')
    for r in range(1, len(edits) + 1):
        for combo in itertools.combinations(edits, r):
            yield combo


def reference_products(ref:Ref, tid, p, opts, strict):
    """ products of the unmodified transcript under the same options (per-transcript
    deny-list, M8). strict=True gives the certain set, False the possible set """
    res = linear_products(ref, tid, [], p, opts, 'U', strict=strict)
    if not strict:
        # the deny-list of the tool is the digest of the whole reference translation with its
        # W>F / Sec forms, the last (open) peptide of an mRNA_end_NF transcript included
        res |= linear_products(ref, tid, [], p, opts, 'U', strict=False, keep_open=True)
    return res


def canonical(ref:Ref, p, strict):
    prots = [(seq, nf) for _, _, _, _, seq, nf in ref.proteome_entries()]
    return enz.canonical_pool(prots, p, strict=strict)


def linear_bounds(ref:Ref, tid, records, opts, max_n=9):
    """ (L, U, info) for the main call of transcript tid """
    p = params_of(opts)
    edits, ignored = tx_edits(ref, tid, records, start_index_of(ref, tid))
    t = ref.tx(tid)
    n = len(ref.tx_seq(tid))
    if 'mRNA_end_NF' in t.get('tags', []) and t.get('cds'):
        # M1: records overlapping the last annotated codon are ignored
        s = t['cds'][0]
        end = n - (n - s) % 3
        keep = [e for e in edits if not (e.rs < end and e.re > end - 3)]
        ignored += len(edits) - len(keep)
        edits = keep
    L, U = set(), set()
    n_haps = 0
    multi = set()
    for combo in subsets(edits, max_n):
        if not compatible(combo, strict=False):
            continue
        n_haps += 1
        a = linear_products(ref, tid, combo, p, opts, 'U', strict=False)
        b = linear_products(ref, tid, combo, p, opts, 'stop', strict=False)
        U |= a | b
        if compatible(combo, strict=True) and not any(e.u_only for e in combo):
            # --coding-novel-orf is not part of what C01 demands of coding transcripts
            # (the tool only finds in-frame alternative starts there): U only
            nov = False if t.get('cds') else None
            a2 = linear_products(ref, tid, combo, p, opts, 'U', strict=True, novel=nov)
            b2 = linear_products(ref, tid, combo, p, opts, 'stop', strict=True, novel=nov)
            both = a2 & b2
            L |= both
            if len(combo) >= 2 or any(e.cls != 'SNV' for e in combo):
                multi |= both
    ref_hi = reference_products(ref, tid, p, opts, strict=False)
    ref_lo = reference_products(ref, tid, p, opts, strict=True)
    L = L - ref_hi
    # U is NOT reduced by the products of the unmodified transcript: realizability (C02)
    # does not depend on it
    return L, U, dict(n_edits=len(edits), ignored=ignored, n_haps=n_haps,
        multi=multi - ref_hi)


# ------------------------------------------------------------------ fusion (M10)
def fusion_parts(ref:Ref, r):
    """ (donor prefix incl. left intronic insert, right intronic insert + acceptor suffix,
    donor transcript length used) following docs/file-format.md """
    dtx, atx = r['tx'], r['atx']
    dg, ag = ref.tx_gene(dtx), ref.tx_gene(atx)
    dseq, aseq = ref.tx_seq(dtx), ref.tx_seq(atx)
    dgene = ref.gene_seq(ref.gene_of(dtx)['id'])
    agene = ref.gene_seq(ref.gene_of(atx)['id'])
    last_inc = r['dpos'] - 1
    if last_inc in dg:
        dlen = dg.index(last_inc) + 1
        lins = ''
    else:
        ups = [g for g in dg if g < last_inc]
        if not ups:
            return None
        up = max(ups)
        dlen = dg.index(up) + 1
        lins = dgene[up + 1:last_inc + 1]
    first_inc = r['apos']
    if first_inc in ag:
        astart = ag.index(first_inc)
        rins = ''
    else:
        dns = [g for g in ag if g > first_inc]
        if not dns:
            return None
        dn = min(dns)
        astart = ag.index(dn)
        rins = agene[first_inc:dn]
    return dict(dlen=dlen, lins=lins, rins=rins, astart=astart,
        fused=dseq[:dlen] + lins + rins + aseq[astart:])


def fusion_bounds(ref:Ref, r, records, opts):
    """ (L, U) for one fusion record; donor small variants strictly before the breakpoint.
    (acceptor-side variants are not generated in this family) """
    p = params_of(opts)
    parts = fusion_parts(ref, r)
    if parts is None:
        return set(), set(), dict(skip=True)
    dtx = r['tx']
    t = ref.tx(dtx)
    coding = bool(t.get('cds'))
    dlen = parts['dlen']
    if coding and dlen < t['cds'][0] + 3:
        return set(), set(), dict(upstream_of_start=True)
    if not coding and dlen < 3:
        return set(), set(), dict(upstream_of_start=True)
    tail = parts['lins'] + parts['rins'] + ref.tx_seq(r['atx'])[parts['astart']:]
    edits, _ = tx_edits(ref, dtx, [x for x in records if x['kind'] == 'small' and x['tx'] == dtx],
        start_index_of(ref, dtx))
    edits = [e for e in edits if e.re < dlen]
    L, U = set(), set()
    novel = (not coding) or opts.get('coding_novel_orf', False)
    combos = [()] + list(subsets(edits))
    for combo in combos:
        if not compatible(combo, strict=False):
            continue
        dhap = apply_edits(ref.tx_seq(dtx)[:dlen], combo)
        fused = dhap + tail
        bp = len(dhap)
        ins_end = bp + len(parts['lins']) + len(parts['rins'])
        for reading in ('U', 'stop'):
            secs_all = hap_secs(t, combo, fused, reading) if coding else []
            if reading == 'U':
                secs = [c for c in secs_all if c + 3 <= bp]
            else:
                secs = [c for c in secs_all if c + 3 < bp]
            prods_u = set()
            prods_l = set()
            if coding:
                st = t['cds'][0]
                nf = 'cds_start_NF' in t.get('tags', [])
                prods_u |= orf_products(fused, st, p, secs=secs, m_removal=True, strict=False)
                prods_l |= orf_products(fused, st, p, secs=secs, m_removal=not nf,
                    min_end_nt=bp, strict=True, drop_open=True)
            if novel:
                for st in atg_starts(fused, upto=ins_end + 1):
                    prods_u |= orf_products(fused, st, p, secs=secs, strict=False)
                    if st + 3 <= bp:
                        prods_l |= orf_products(fused, st, p, secs=secs, min_end_nt=bp,
                            strict=True, drop_open=True)
            if opts.get('w2f'):
                prods_u = add_w2f(prods_u, p, False)
                prods_l = add_w2f(prods_l, p, True)
            U |= prods_u
            if compatible(combo, strict=True):
                if reading == 'U':
                    l_u = prods_l
                else:
                    L |= (l_u & prods_l)
    ref_hi = reference_products(ref, dtx, p, dict(opts, sect=opts.get('sect', False)), False)
    ref_lo = reference_products(ref, dtx, p, opts, True)
    return L - ref_hi, U, dict(dlen=dlen, lins=len(parts['lins']),
        rins=len(parts['rins']))


# ------------------------------------------------------------------ circRNA (M11)
def circ_products(loop, p, first_copy_only, drop_open, strict, copies=4):
    seq = loop * copies
    res = set()
    n = len(loop)
    lim = n if first_copy_only else len(seq) - 2
    for st in range(0, lim):
        if seq[st:st + 3] != 'ATG':
            continue
        res |= orf_products(seq, st, p, m_removal=True, drop_open=drop_open, strict=strict)
    return res


def circ_bounds(ref:Ref, r, records, opts):
    p = params_of(opts)
    tid = r['tx']
    gseq = ref.gene_seq(ref.gene_of(tid)['id'])
    frags = sorted(tuple(f) for f in r['frags'])
    small = [x for x in records if x['kind'] == 'small' and x['tx'] == tid]
    vs = [(x['g'], x['ref'], x['alt'], x) for x in small]

    def strict_ok(v):
        return any(a + 3 < v[0] and v[0] + len(v[1]) < b for a, b in frags)

    def loose_ok(v):
        return any(a <= v[0] and v[0] + len(v[1]) <= b for a, b in frags)

    def loop_of(combo):
        out = ''
        for a, b in frags:
            s = gseq[a:b]
            eds = [Edit(g - a, g - a + len(rf), al, '', '', g - a, g - a + len(rf))
                for (g, rf, al, _) in combo if a <= g < b]
            out += apply_edits(s, eds)
        return out

    def compat(combo, strict):
        cs = sorted(combo, key=lambda v: v[0])
        for a, b in zip(cs, cs[1:]):
            ea = a[0] + len(a[1])
            if (strict and ea >= b[0]) or (not strict and ea > b[0]):
                return False
            if strict and len(a[1]) != len(a[2]) and ea + 1 >= b[0]:
                return False
        return True
    L, U = set(), set()
    vs = sorted(vs, key=lambda v: (v[0], v[1], v[2]))
    if len(vs) > 8:
        raise OverflowError('too many records on a circRNA')
    for k in range(0, len(vs) + 1):
        for combo in itertools.combinations(vs, k):
            if not compat(combo, False):
                continue
            if all(loose_ok(v) for v in combo):
                U |= circ_products(loop_of(combo), p, False, False, strict=False)
            if all(strict_ok(v) for v in combo) and compat(combo, True):
                L |= circ_products(loop_of(combo), p, True, True, strict=True)
    if opts.get('w2f'):
        U = add_w2f(U, p, False)
        L = add_w2f(L, p, True)
    return L, U, dict(looplen=len(loop_of(())))
