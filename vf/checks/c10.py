""" C10 — canonical peptide pool is the exact in-silico digest of the proteome;
cleavage sites are exactly those of the ExPASy rule. """
import itertools
import argparse
from pathlib import Path
from hypothesis import strategies as st
from vf.harness import Outcome
from vf.dr import D
from vf import refgen, enz, drive
from vf.model import Ref, write_reference

ID = 'C10'
LEVEL = 'exploration'
RULE = ('(a) rule semantics: for each of the 35 rules (+ trypsin with its exception) ALL '
    'strings up to a bounded length over the rule\'s own letters plus one neutral letter are '
    'enumerated (one case = one rule x 2-letter prefix block); sites from the tool must equal '
    'the sites of an independent position-constraint model, for the plain and the with-range '
    'iterator; a block is non-trivial if some string has >=2 sites or an exception hit. '
    '(b) pool: generated proteomes (20 aa + U, leading X, internal *, cds_start_NF) x settings '
    'x {on-the-fly, generateIndex, updateIndex}: pool must equal the model digest incl. I->L '
    'and Met-removed forms; non-trivial if a protein has >=3 sites, an I and a leading M.')
ASSUMPTIONS = [
    'enzyme semantics are the ExPASy PeptideCutter tables as transcribed into vf/enz.py '
    '(position constraints P4..P2\', not regexes)',
    'Bio.SeqUtils.molecular_weight is shared with the tool (trusted third party); peptides '
    'within 1e-6 Da of the mass threshold may go either way',
]
BUDGET = {'quick': 120, 'thorough': 1500}
EXHAUSTIVE = {'quick': True, 'thorough': True}
EXHAUSTIVE_NOTE = {
    'quick': 'rule semantics: all strings up to length 4-5 over each rule\'s reduced alphabet',
    'thorough': 'rule semantics: all strings up to length 5-7 over each rule\'s reduced alphabet',
}
AA = 'ACDEFGHIKLMNPQRSTVWY'


def rule_letters(rule, exception=None):
    s = set()
    for r in (rule, exception):
        if not r:
            continue
        for alt in enz.RULES[r]:
            for cons in alt.values():
                if len(cons) > 1:
                    s.update(cons[1])
    neutral = [c for c in AA if c not in s][:1]
    return ''.join(sorted(s)) + ''.join(neutral)


def max_len(n_letters, tier):
    budget = 2.5e5 if tier == 'quick' else 6e6
    L = 3
    while n_letters ** (L + 1) <= budget and L < 8:
        L += 1
    return L


def exhaustive(tier):
    for rule in enz.ENZYMES:
        variants = [None]
        if rule == 'trypsin':
            variants = [None, 'trypsin_exception', 'auto']
        for exc in variants:
            al = rule_letters(rule, enz.resolve_exception(rule, exc))
            L = max_len(len(al), tier)
            for a, b in itertools.product(al, repeat=2):
                yield dict(kind='rule', rule=rule, exception=exc, alphabet=al, L=L,
                    prefix=a + b)
            yield dict(kind='rule', rule=rule, exception=exc, alphabet=al, L=1, prefix='')


@st.composite
def strategy_(draw, tier):
    d = D(draw)
    ref = refgen.gen_reference(d, n_genes=(1, 2), max_tx=2, p_coding=0.95)
    rule = d.choice(enz.ENZYMES + ['trypsin'] * 6)
    exception = d.choice([None, 'auto', 'trypsin_exception']) if rule == 'trypsin' else \
        d.choice([None, 'auto'])
    al = rule_letters(rule, enz.resolve_exception(rule, exception))
    alphabet = al * 3 + AA + 'KRIIM'
    # replace protein sequences by generated ones (the proteome FASTA is an input of its own)
    for g in ref['genes']:
        for t in g['txs']:
            if not t.get('cds'):
                continue
            n = d.randint(8, 60)
            p = d.letters(alphabet, n)
            if d.chance(0.6):
                p = 'M' + p
            if d.chance(0.15):
                k = d.randint(1, len(p) - 1)
                p = p[:k] + 'U' + p[k + 1:]
            if d.chance(0.15):
                p = 'X' * d.randint(1, 2) + p
            if d.chance(0.1):
                k = d.randint(1, len(p) - 1)
                p = p[:k] + 'X' + p[k + 1:]
            if d.chance(0.15):
                k = d.randint(2, len(p) - 1)
                p = p[:k] + '*' + p[k + 1:]
            if d.chance(0.12):
                p = p + 'X'       # 3'-incomplete CDS (cds_end_NF): the last residue is unknown
            t['protein'] = p
    if d.chance(0.35):
        ref['extra_proteins'] = [[d.randint(0, 4), f'ENSP0000008888{i}.1', f'ENST0000008888{i}.1',
            'ENSG00000088888.1', 'ORPHAN', 'M' + d.letters(alphabet, d.randint(8, 40))]
            for i in range(d.randint(1, 2))]
    params = dict(rule=rule, exception=exception, miscleavage=d.randint(0, 3),
        min_length=d.randint(1, 8), max_length=d.randint(8, 30),
        min_mw=float(d.choice([0, 300, 500, 500, 800])))
    params2 = dict(params)
    params2['miscleavage'] = (params['miscleavage'] + 1) % 4
    return dict(kind='pool', ref=ref, params=params, params2=params2,
        path=d.choice(['memory', 'index', 'index+update']))


def strategy(tier):
    return strategy_(tier)


def prop_rule(case):
    from Bio.Seq import Seq
    from moPepGen.aa import AminoAcidSeqRecord
    out = Outcome()
    rule, exc = case['rule'], case['exception']
    exc_tool = enz.resolve_exception(rule, exc)
    n = 0
    multi = False
    exc_hit = False
    lens = range(len(case['prefix']), case['L'] + 1) if case['prefix'] else [1]
    for l in lens:
        for tail in itertools.product(case['alphabet'], repeat=l - len(case['prefix'])):
            s = case['prefix'] + ''.join(tail)
            n += 1
            exp = [x for x in enz.sites(s, rule, exc)]
            rec = AminoAcidSeqRecord(Seq(s))
            got = list(rec.iter_enzymatic_cleave_sites(rule, exc_tool))
            if got != exp:
                return out.fail(f'{rule}/{exc}: sites of {s!r}: tool {got} != model {exp}',
                    f'sites:{rule}')
            try:
                wr = list(rec.iter_enzymatic_cleave_sites_with_range(rule, exc_tool))
            except Exception as e:     # pylint: disable=broad-except
                return out.fail(f'{rule}/{exc}: with_range raised on {s!r}: {e}',
                    f'range-exc:{rule}')
            if [x[0] for x in wr] != exp:
                return out.fail(f'{rule}/{exc}: with_range sites of {s!r}: '
                    f'{[x[0] for x in wr]} != {exp}', f'range-sites:{rule}')
            for site, (a, b) in wr:
                if not (0 <= a < b <= len(s) and a <= site <= b):
                    return out.fail(f'{rule}: range {(a, b)} does not contain site {site} '
                        f'in {s!r}', f'range-bounds:{rule}')
            if len(exp) >= 2:
                multi = True
            if exc_tool and exp != enz.sites(s, rule, None):
                exc_hit = True
    out.nontrivial = multi or exc_hit
    out.label('rule-block', f'rule:{rule}')
    out.detail = n
    out.label(*(['strings:%d' % (10 ** len(str(n)))]))
    return out


def model_pool(ref, params, strict):
    prots = [(seq, nf) for _, _, _, _, seq, nf in ref.proteome_entries()]
    return enz.canonical_pool(prots, params, strict=strict)


def prop_pool(case, ctx):
    from moPepGen.index import IndexDir
    from moPepGen.params import CleavageParams
    out = Outcome()
    ref = Ref(case['ref'])
    d = ctx.fresh_dir()
    write_reference(ref, d)
    p = case['params']

    def tool_pool(params, how):
        if how == 'memory':
            a = argparse.Namespace(index_dir=None, genome_fasta=d/'genome.fasta',
                annotation_gtf=d/'anno.gtf', proteome_fasta=d/'proteome.fasta',
                reference_source=None, **drive.cleavage_args(params))
            cp = CleavageParams(enzyme=params['rule'], exception=params['exception'],
                miscleavage=params['miscleavage'], min_mw=params['min_mw'],
                min_length=params['min_length'], max_length=params['max_length'])
            with drive.quiet():
                _, _, _, pool = drive.mod('common').load_references(a, load_genome=False,
                    load_canonical_peptides=True, cleavage_params=cp)
            return pool
        idx = d/'index'
        if how == 'generate':
            drive.generate_index(d, idx, params)
        elif how == 'update':
            drive.update_index(idx, params)
        cp = CleavageParams(enzyme=params['rule'], exception=params['exception'],
            miscleavage=params['miscleavage'], min_mw=params['min_mw'],
            min_length=params['min_length'], max_length=params['max_length'])
        return IndexDir(idx).load_canonical_peptides(cp)

    runs = []
    try:
        if case['path'] == 'memory':
            runs.append((p, tool_pool(p, 'memory')))
        elif case['path'] == 'index':
            runs.append((p, tool_pool(p, 'generate')))
        else:
            runs.append((p, tool_pool(p, 'generate')))
            runs.append((case['params2'], tool_pool(case['params2'], 'update')))
            runs.append((p, tool_pool(p, 'load')))
    except SystemExit as e:
        return out.fail(f'index command exited with {e.code}', 'index-exit')
    except Exception as e:     # pylint: disable=broad-except
        return out.fail(f'building the pool raised {type(e).__name__}: {e}', 'pool-exc')
    for params, got in runs:
        lo = model_pool(ref, params, strict=True)
        hi = model_pool(ref, params, strict=False)
        got = set(got)
        if not lo <= got:
            return out.fail(f'canonical pool misses {sorted(lo - got)[:4]} ({case["path"]}, '
                f'{params})', 'pool-missing')
        if not got <= hi:
            return out.fail(f'canonical pool has extra {sorted(got - hi)[:4]} '
                f'({case["path"]}, {params})', 'pool-extra')
    nt = False
    for tid in ref.coding_txs():
        pr = ref.protein(tid).lstrip('X').split('*')[0]
        if pr.startswith('M') and 'I' in pr and \
                len(enz.sites(pr, p['rule'], p['exception'])) >= 3:
            nt = True
    out.nontrivial = nt and bool(runs[0][1])
    out.label('pool', 'path:' + case['path'], f'rule:{p["rule"]}',
        'exception:' + str(p['exception']))
    if any('cds_start_NF' in ref.tx(t).get('tags', []) for t in ref.coding_txs()):
        out.label('cds_start_NF')
    return out


def prop(case, ctx):
    if case['kind'] == 'rule':
        return prop_rule(case)
    return prop_pool(case, ctx)
