""" C05 — options and inputs act monotonically on callVariant's peptide set. """
import copy
from hypothesis import strategies as st
from vf.harness import Outcome
from vf import cveval, refgen, vargen, enz, cvmodel as M
from vf.model import Ref
from vf.dr import D

ID = 'C05'
LEVEL = 'exploration'
RULE = ('pairs of callVariant runs (A below B) on one generated input (1-3 genes, <=3 isoforms, '
    'up to ~25 records incl. alternative splicing, fusion and circRNA records; complexity '
    'limits disabled; no haplotype enumeration): relax one limit (miscleavage+1, '
    'min_length-1, lower min_mw, max_length+1), switch on SECT / W2F / coding-novel-ORF, add '
    'one record, add one GVF file, or drop a restrictive switch (noncanonical-transcripts, '
    'backsplicing-only). Oracle (metamorphic): FASTA(A) is a subset of FASTA(B) as sequence '
    'sets, and every added sequence is attributable to the relaxation: outside A\'s stricter '
    'limit (length, mass, possible number of missed cleavages by the independent enzyme '
    'model), or every header entry carries a SECT / W2F / ORF identifier, or the added '
    'record\'s id; restricted runs keep only entries of fusion / circRNA backbones or of '
    'transcripts carrying an alternative-splicing record (resp. circRNA entries). '
    'Non-trivial = the two outputs differ; distinct by canonical JSON')
ASSUMPTIONS = [
    'complexity limits disabled (-1): otherwise monotonicity is not claimed',
    'strict domain of rules (no pepsin, no trypsin exception, no rarely cutting rules)',
    'the number of missed cleavages of a peptide is bounded from above by the bonds that may '
    'be cut given any flanking residues (vf.enz.possible_sites)',
]
BUDGET = {'quick': 30, 'thorough': 1500}
WALL = {'quick': 900, 'thorough': 3 * 3600}
# a pair of runs needs seconds (the tool is given 6 s per transcript); rare inputs keep the
# process busy for many minutes: abandoned (inconclusive) after this much CPU time
CASE_LIMIT = {'quick': 120, 'thorough': 600}
KINDS = ['misc', 'minlen', 'minmw', 'maxlen', 'sect', 'w2f', 'novel', 'add_record', 'add_record',
    'add_file', 'noncanonical', 'backsplicing']


@st.composite
def strategy_(draw, tier):
    d = D(draw)
    kind = d.choice(KINDS)
    if kind in ('add_record', 'add_file') and d.chance(0.3):
        # a fusion (or circRNA) record added to a transcript that also hosts a circRNA and
        # small variants: the units share the transcript's record series
        case = cveval.gen_case(d, family='fuscirc', enzymes=cveval.STRICT_ENZYMES, alt=True)
        case['kind'] = 'add_record'
        idx = [i for i, r in enumerate(case['records']) if r['kind'] in ('fusion', 'circ')]
        if idx:
            case['held_out'] = [d.choice(idx)]
            return case
    if kind == 'backsplicing':
        fam = 'circ'
    elif kind == 'noncanonical':
        fam = d.choice(['circ', 'fusion', 'as', 'mixed'])
    else:
        fam = d.choice(['multi', 'multi', 'multi', 'mixed', 'as'])
    refd = refgen.gen_reference(d, n_genes=(2, 3) if fam in ('fusion', 'mixed') else (1, 3),
        max_tx=d.choice([1, 2, 3]), p_nf=0.08, n_exons=(1, 4), utr_styles=('gencode',),
        p_sec=0.6 if kind == 'sect' else 0.4)
    ref = Ref(refd)
    tids = list(ref.txs)
    records = []
    for tid in tids:
        if len(tids) > 1 and d.chance(0.2):
            continue
        records += vargen.gen_small(d, ref, tid, d.randint(1, 4 if fam == 'circ' else 7),
            spread=d.choice([8, 15, 40]))
        if fam in ('as', 'mixed') and d.chance(0.6):
            records += vargen.gen_as(d, ref, tid, d.randint(1, 2))
        if fam in ('circ', 'mixed') and d.chance(0.7 if fam == 'circ' else 0.3):
            records.append(vargen.gen_circ(d, ref, tid))
    if fam in ('fusion', 'mixed') and len(tids) >= 2:
        for _ in range(d.randint(1, 2)):
            a, b = d.sample(tids, 2)
            f = vargen.gen_fusion(d, ref, a, b)
            if f and all(f['id'] != r.get('id') for r in records):
                records.append(f)
    # de-duplicate ids per transcript
    seen = set()
    uniq = []
    for r in records:
        k = (r['tx'], vargen.record_id(r))
        if k not in seen:
            seen.add(k)
            uniq.append(r)
    records = uniq
    opts = cveval.gen_opts(d, cveval.STRICT_ENZYMES, alt=True, limits=True)
    if d.chance(0.15):
        opts['coding_novel_orf'] = True
    case = dict(family=fam, kind=kind, ref=refd, records=records, opts=opts)
    if kind in ('add_record', 'add_file') and records:
        smalls = [i for i, r in enumerate(records)]
        if kind == 'add_record':
            case['held_out'] = [d.choice(smalls)]
        else:
            # a whole extra GVF file: a random subset of the small records goes to file 1
            sm = [i for i, r in enumerate(records) if r['kind'] == 'small']
            case['held_out'] = sorted(d.sample(sm, d.randint(1, max(1, len(sm) // 2)))) \
                if sm else []
            case['index_gvfs'] = d.chance(0.5)
    return case


def strategy(tier):
    return strategy_(tier)


def pair(case):
    """ (opts_A, records_A, opts_B, records_B) """
    # a run that does not finish in time is inconclusive (never a violation): the retry ladder
    # cannot lower a disabled limit and gives up
    o = dict(case['opts'], timeout_seconds=6)
    recs = case['records']
    k = case['kind']
    a, b = dict(o), dict(o)
    ra = rb = recs
    if k == 'misc':
        a['miscleavage'] = min(o['miscleavage'], 2)
        b['miscleavage'] = a['miscleavage'] + 1
    elif k == 'minlen':
        b['min_length'] = a['min_length'] - 1
    elif k == 'minmw':
        a['min_mw'] = max(o['min_mw'], 600.)
        b['min_mw'] = a['min_mw'] - 150.
    elif k == 'maxlen':
        a['max_length'] = min(o['max_length'], 14)
        b['max_length'] = a['max_length'] + 1
    elif k == 'sect':
        a['sect'], b['sect'] = False, True
    elif k == 'w2f':
        a['w2f'], b['w2f'] = False, True
    elif k == 'novel':
        a['coding_novel_orf'], b['coding_novel_orf'] = False, True
    elif k in ('add_record', 'add_file'):
        held = set(case.get('held_out', []))
        ra = [r for i, r in enumerate(recs) if i not in held]
        if k == 'add_file':
            rb = [dict(r, file=1) if i in held else r for i, r in enumerate(recs)]
    elif k == 'noncanonical':
        a['noncanonical_transcripts'], b['noncanonical_transcripts'] = True, False
    elif k == 'backsplicing':
        a['backsplicing_only'], b['backsplicing_only'] = True, False
    return a, ra, b, rb


def entry_ids(e):
    return [x[2:] if x[:2] in ('1-', '2-') else x for x in e['ids']]


def prop(case, ctx):
    # pylint: disable=too-many-locals,too-many-branches,too-many-statements,too-many-return-statements
    out = Outcome()
    k = case['kind']
    out.label('kind:' + k, 'family:' + case['family'], 'rule:' + case['opts']['rule'])
    if case.get('index_gvfs'):
        out.label('gvfs_indexed')
    oa, ra, ob, rb = pair(case)
    if not ra:
        return out.label('no_records')
    ref = Ref(case['ref'])
    try:
        resa = cveval.run_tool(dict(case, records=ra), ctx, oa, name='A')
        resb = cveval.run_tool(dict(case, records=rb), ctx, ob, name='B')
    except Exception as e:     # pylint: disable=broad-except
        if 'Failed to finish transcript' in str(e):
            out.inconclusive = 'tool_timeout'
            return out
        bucket = cveval.crash_bucket(e)
        if bucket.startswith('crash:ValueError@svgraph/ThreeFrameTVG.py:expand_alignments'):
            out.known.append('C01-fusion-expand-alignments-crash')
            return out
        return out.fail(f'callVariant raised {type(e).__name__}: {e}', bucket)
    A, B = set(resa['peps']), set(resb['peps'])
    lost = A - B
    added = B - A
    pa = M.params_of(oa)
    if lost and k in ('sect', 'w2f'):
        # open finding: the per-transcript deny-list grows with the alt-translation forms of
        # the unmodified transcript
        denied = set()
        for tid in ref.txs:
            denied |= M.reference_products(ref, tid, M.params_of(ob), ob, strict=False)
        if lost <= denied:
            out.known.append('C05-alt-translation-denylist')
            out.detail = dict(lost=sorted(lost)[:5])
            lost = set()
    if lost:
        return out.fail(f'{k}: {len(lost)} peptide(s) of the stricter run are missing from the '
            f'more permissive run, e.g. {[(s, resa["peps"][s]) for s in sorted(lost)[:3]]}',
            'lost:' + k, detail=dict(lost=sorted(lost)[:10]))
    # attribution of added peptides
    rule, exc = oa['rule'], oa.get('exception')
    held_ids = set()
    if k in ('add_record', 'add_file'):
        held_ids = {vargen.record_id(case['records'][i]) for i in case.get('held_out', [])}
    as_txs = {r['tx'] for r in case['records'] if r['kind'] == 'as'}
    noncanon_ids = {r['id'] for r in case['records'] if r['kind'] in ('fusion', 'circ')}
    circ_ids = {r['id'] for r in case['records'] if r['kind'] == 'circ'}
    # a fusion call also emits the products that lie wholly in the donor part, labelled with
    # the donor transcript
    donor_txs = {r['tx'] for r in case['records'] if r['kind'] == 'fusion'}
    for s in sorted(added):
        entries = cveval.parse_header(resb['peps'][s])
        ok = True
        why = ''
        if k == 'misc':
            # sites are decided before W>F reassignment: count them on the W form as well
            forms = {s}
            for e in entries:
                w = list(s)
                for x in e['ids']:
                    if x.startswith('W2F-') and x[4:].isdigit() and 0 < int(x[4:]) <= len(w) \
                            and w[int(x[4:]) - 1] == 'F':
                        w[int(x[4:]) - 1] = 'W'
                forms.add(''.join(w))
            nsites = max(len(enz.possible_sites(f, rule, exc)) for f in forms)
            ok = nsites > oa['miscleavage']
            why = f'has at most {nsites} missed cleavages'
        elif k == 'minlen':
            ok = len(s) < oa['min_length']
            why = f'length {len(s)} >= {oa["min_length"]}'
        elif k == 'maxlen':
            ok = len(s) > oa['max_length']
            why = f'length {len(s)} <= {oa["max_length"]}'
        elif k == 'minmw':
            ok = enz.mass(s) < oa['min_mw'] + enz.MASS_EPS
            why = f'mass {enz.mass(s):.3f} >= {oa["min_mw"]}'
        elif k == 'sect':
            ok = all(any(x.startswith('SECT-') for x in e['ids']) for e in entries)
            why = 'an entry carries no SECT identifier'
        elif k == 'w2f':
            ok = all(any(x.startswith('W2F-') for x in e['ids']) for e in entries)
            why = 'an entry carries no W2F identifier'
        elif k == 'novel':
            ok = all(e['orf'] is not None for e in entries)
            why = 'an entry carries no ORF identifier'
        elif k in ('add_record', 'add_file'):
            ok = all(held_ids & set(entry_ids(e)) or e['backbone'] in held_ids for e in entries)
            why = f'an entry names none of the added records {sorted(held_ids)}'
        elif k == 'noncanonical':
            # B is the unrestricted run here: nothing to attribute
            ok = True
        if not ok:
            if k in ('add_record', 'add_file') and not held_ids.isdisjoint(
                    vargen.record_id(r) for r in case['records']):
                # the peptide must at least be unreachable without the added records: that is
                # what A's output says (s not in A). A header that does not name the added
                # record is a header defect (C03), tolerated here only with C03's signatures
                kf = None
                for e in entries:
                    if e['backbone'] in ref.txs:
                        kf = cveval.classify_mislabel(dict(case, opts=ob), ref, s, e) or kf
                    else:
                        kf = 'C03-noncanonical-backbone-incomplete-label'
                if kf:
                    out.known.append(kf)
                    continue
            return out.fail(f'{k}: added peptide {s} [{resb["peps"][s]}] is not attributable to '
                f'the relaxation ({why})', 'unattributed:' + k,
                detail=dict(seq=s, header=resb['peps'][s]))
    if k == 'noncanonical':
        for s in sorted(A):
            for e in cveval.parse_header(resa['peps'][s]):
                if not (e['backbone'] in noncanon_ids or e['backbone'] in as_txs
                        or e['backbone'] in donor_txs):
                    return out.fail(f'--noncanonical-transcripts kept {s} with entry '
                        f'{e["entry"]}: neither a fusion / circRNA backbone nor a fusion '
                        'donor nor a transcript with an alternative-splicing record', 'restricted-entry:noncanonical')
    if k == 'backsplicing':
        for s in sorted(A):
            for e in cveval.parse_header(resa['peps'][s]):
                if e['backbone'] in circ_ids:
                    continue
                # entries of linear backbones are untouched by the switch: must be in B too
                if s not in B:
                    return out.fail(f'--backsplicing-only kept {s} which the full run lacks',
                        'restricted-entry:backsplicing')
    out.nontrivial = A != B
    if added:
        out.label('grew')
    if A:
        out.label('A_nonempty')
    out.label('n_records:%d' % (10 * (len(case['records']) // 10)))
    return out
