""" C18 — splitFasta / mergeFasta / encodeFasta / summarizeFasta conserve peptides. """
import io
import argparse
import importlib
import contextlib
from pathlib import Path
from hypothesis import strategies as st
from vf.harness import Outcome
from vf import refgen, vargen, drive
from vf.model import Ref, write_reference
from vf.dr import D

ID = 'C18'
LEVEL = 'exploration'
RULE = ('synthetic peptide FASTAs whose multi-entry headers are drawn from the label grammar '
    '(transcript + small / alternative-splicing variant ids, ORF ids, SECT / W2F ids, fusion '
    'backbones with 1-/2- prefixed ids, circRNA backbones, novel-ORF and alt-translation '
    'entries) over a generated annotation; the ids are assigned to 2-6 sources by generated '
    'GVF files; options: --order-source (permutation of a subset, group names for grouped '
    'sources), --group-source, --max-source-groups 1-3, --additional-split pairs, wildcards. '
    'Oracle: (split) every input sequence lands in exactly one database, unchanged, with the '
    'same set of header entries, and the database is the one an independent model derives '
    '(source set per entry -> priority = fewer sources first, then lexicographic by source '
    'order -> key by max-groups / additional-split / Remaining); (merge) merging the '
    'databases, or two overlapping FASTAs, gives the union of sequences with the union of '
    'entries; (encode) every header is replaced by an identifier that the .dict file maps '
    'back to exactly the original header, decoy strings preserved, also for decoy-first '
    'order; (summarize) per-source-set totals add up to the number of peptides and equal the '
    'sizes of the databases splitFasta writes with max-groups = number of sources. '
    'Non-trivial = a peptide with >= 2 entries of different source sets, or a grouped source; '
    'distinct by canonical JSON')
ASSUMPTIONS = [
    'header entries are generated in the canonical field order the tool itself prints',
    'database choice is modelled for order lists of single sources, groups and wildcard '
    'patterns (first pattern of the order that claims the source set of an entry); '
    'combination entries (A-B) in --order-source are not generated',
]
BUDGET = {'quick': 600, 'thorough': 20000}
AA = 'ACDEFGHIKLMNPQRSTVWY'
INTERNAL = ['NovelORF', 'SECT', 'CodonReassign']


def mod(name):
    return importlib.import_module(f'moPepGen.cli.{name}')


@contextlib.contextmanager
def quiet():
    with contextlib.redirect_stdout(io.StringIO()), contextlib.redirect_stderr(io.StringIO()):
        yield


# ------------------------------------------------------------------ generator
def gen_entry(d, ref, by_tx, fusions, circs, counters):
    """ one header entry (canonical field order) and its kind """
    tids = list(ref.txs)
    r = d.rng.random()

    def idx(key):
        counters[key] = counters.get(key, 0) + 1
        return str(counters[key])

    def alt_ids():
        out = []
        if d.chance(0.15):
            out.append(f'SECT-{d.randint(10, 200)}')
        if d.chance(0.2):
            out.append(f'W2F-{d.randint(1, 9)}')
        return out
    if r < 0.12:
        tid = d.choice(tids)
        g = ref.gene_of(tid)
        f = [tid, g['id']] + ([f'W2F-{d.randint(1, 9)}'] if d.chance(0.3) else []) \
            + [f'ORF{d.randint(1, 3)}']
        return '|'.join(f + [idx(tid)])
    if r < 0.2 and ref.coding_txs():
        tid = d.choice(ref.coding_txs())
        ids = alt_ids() or [f'W2F-{d.randint(1, 9)}']
        return '|'.join([tid] + ids + [idx(tid)])
    if r < 0.35 and fusions:
        f = d.choice(fusions)
        ids = [f"1-{vargen.record_id(x)}" for x in d.sample(by_tx.get(f['tx'], []),
            d.randint(0, 2)) if x['kind'] == 'small']
        ids += [f"2-{vargen.record_id(x)}" for x in d.sample(by_tx.get(f['atx'], []),
            d.randint(0, 1)) if x['kind'] == 'small']
        orf = [f'ORF{d.randint(1, 3)}'] if d.chance(0.15) else []
        return '|'.join([f['id']] + orf + ids + alt_ids() + [idx(f['id'])])
    if r < 0.5 and circs:
        c = d.choice(circs)
        ids = [vargen.record_id(x) for x in d.sample(by_tx.get(c['tx'], []), d.randint(0, 2))
            if x['kind'] == 'small']
        orf = [f'ORF{d.randint(1, 3)}'] if d.chance(0.3) else []
        return '|'.join([c['id']] + orf + ids + alt_ids() + [idx(c['id'])])
    cands = [t for t in tids if any(x['kind'] in ('small', 'as') for x in by_tx.get(t, []))]
    if not cands:
        tid = d.choice(tids)
        g = ref.gene_of(tid)
        return '|'.join([tid, g['id'], 'ORF1', idx(tid)])
    tid = d.choice(cands)
    recs = [x for x in by_tx[tid] if x['kind'] in ('small', 'as')]
    ids = [vargen.record_id(x) for x in d.sample(recs, d.randint(1, min(3, len(recs))))]
    orf = [f'ORF{d.randint(1, 3)}'] if (not ref.tx(tid).get('cds') or d.chance(0.1)) else []
    return '|'.join([tid] + ids + alt_ids() + orf + [idx(tid)])


@st.composite
def strategy_(draw, tier):
    d = D(draw)
    refd = refgen.gen_reference(d, n_genes=(2, 3), max_tx=2, p_nf=0.0, n_exons=(2, 3))
    ref = Ref(refd)
    tids = list(ref.txs)
    n_small_sources = d.randint(1, 3)
    records = []
    for tid in tids:
        for r in vargen.gen_small(d, ref, tid, d.randint(2, 5), spread=40):
            r['file'] = d.randint(0, n_small_sources - 1)
            if d.chance(0.15):
                r['res'] = True
                r['file'] = 0
            records.append(r)
        if d.chance(0.5):
            records += vargen.gen_as(d, ref, tid, 1)
        if d.chance(0.4):
            records.append(vargen.gen_circ(d, ref, tid))
    for _ in range(d.randint(0, 2)):
        a, b = d.sample(tids, 2)
        f = vargen.gen_fusion(d, ref, a, b)
        if f:
            records.append(f)
    seen = set()
    uniq = []
    for r in records:
        k = (ref.gene_of(r['tx'])['id'], vargen.record_id(r))
        if k not in seen:
            seen.add(k)
            uniq.append(r)
    records = uniq
    by_tx = {}
    for r in records:
        by_tx.setdefault(r['tx'], []).append(r)
    fusions = [r for r in records if r['kind'] == 'fusion']
    circs = [r for r in records if r['kind'] == 'circ']
    counters = {}
    peptides = []
    seqs = set()
    for _ in range(d.randint(6, 24)):
        s = d.letters(AA, d.randint(7, 18))
        if s in seqs:
            continue
        seqs.add(s)
        entries = []
        for _ in range(d.choice([1, 1, 2, 2, 3])):
            e = gen_entry(d, ref, by_tx, fusions, circs, counters)
            if e not in entries:
                entries.append(e)
        peptides.append([s, entries])
    # sources as write_gvfs names them
    sources = []
    for r in records:
        k = vargen.file_kind(r)
        fi = r.get('file', 0)
        name = vargen.SOURCE_OF[k] + (str(fi) if fi else '')
        if name not in sources:
            sources.append(name)
    group = None
    # groups of small-variant sources (or of internal sources): grouping sources of parsers
    # that summarizeFasta treats as mutually exclusive (fusion / circRNA / splicing) with
    # others would suppress rows of its table
    pointish = [s for s in sources if s.startswith(('gSNP', 'RNAEditing'))]
    if d.chance(0.35):
        if len(pointish) >= 2 and d.chance(0.8):
            group = ['Grp', d.sample(pointish, 2)]
        else:
            group = ['Grp', d.sample(INTERNAL, 2)]
    names = []
    for s in sources + INTERNAL:
        n = 'Grp' if group and s in group[1] else s
        if n not in names:
            names.append(n)
    order = d.shuffle(names)[:d.randint(0, len(names))] if d.chance(0.7) else None
    wildcard = None
    if order and d.chance(0.2):
        # one or two wildcard patterns (X-* : X with or without other sources, X-+ : X with at
        # least one other source); two patterns overlap on peptides that carry both bases
        bases = d.sample(order, min(len(order), d.choice([1, 1, 2])))
        wildcard = [b + '-' + d.choice(['*', '+']) for b in bases]
        for w in wildcard:
            b = w.split('-')[0]
            order = [w if x == b and d.chance(0.5) else x for x in order]
            if w not in order:
                order.insert(d.randint(0, len(order)), w)
    add_split = []
    if len(names) >= 2 and d.chance(0.4):
        for _ in range(d.randint(1, 2)):
            add_split.append(d.sample(names, 2))
    opts = dict(order=order, group=group, max_groups=d.randint(1, 3), additional=add_split,
        gvf_order=d.randint(0, 10 ** 6), wildcard=wildcard,
        decoy=d.choice([None, ['DECOY_', 'prefix'], ['_REV', 'suffix'], ['XXX_', 'prefix']]),
        decoy_order=d.choice(['juxtaposed', 'target_first', 'decoy_first']),
        split_point=d.randint(0, 100))
    return dict(ref=refd, records=records, peptides=peptides, opts=opts)


def strategy(tier):
    return strategy_(tier)


# ------------------------------------------------------------------ model
def entry_sources(entry, ref, src_of, group):
    """ source set of one header entry by the documented label grammar """
    f = entry.split('|')
    if f[-1].isdigit():
        f = f[:-1]
    bb = f[0]
    out = set()

    def grp(s):
        return 'Grp' if group and s in group[1] else s
    if bb.startswith('FUSION-'):
        _, first, second = bb.split('-')
        g1 = ref.gene_of(first.split(':')[0])['id']
        g2 = ref.gene_of(second.split(':')[0])['id']
        out.add(grp(src_of[(g1, bb)]))
    elif bb.startswith(('CIRC-', 'CI-')):
        g1 = ref.gene_of(bb.split('-', 2)[1])['id']
        g2 = g1
        out.add(grp(src_of[(g1, bb)]))
    else:
        g1 = g2 = ref.gene_of(bb)['id']
    for x in f[1:]:
        if x.startswith('ORF'):
            out.add(grp('NovelORF'))
        elif x.startswith('SECT-'):
            out.add(grp('SECT'))
        elif x.startswith('W2F-'):
            out.add(grp('CodonReassign'))
        elif x.startswith('1-'):
            out.add(grp(src_of[(g1, x[2:])]))
        elif x.startswith('2-'):
            out.add(grp(src_of[(g2, x[2:])]))
        elif x.startswith('ENSG'):
            continue
        else:
            out.add(grp(src_of[(g1, x)]))
    return out


def model_split(case, ref, gvf_sources, src_of):
    """ {sequence: database key} """
    o = case['opts']
    group = o['group']
    levels = list(o['order'] or [])
    for s in gvf_sources + INTERNAL:
        n = 'Grp' if group and s in group[1] else s
        if n not in levels:
            levels.append(n)
    lv = {s: i for i, s in enumerate(levels)}
    singles = [x for x in levels if not x.endswith(('-*', '-+'))]

    def pattern_of(ss):
        """ the first entry of the order that claims the source set: a single source claims
        the set that holds only it, X-* claims X with any others, X-+ X with >= 1 other.
        (The tool does not expand a pattern to X plus ALL other sources; such a set does not
        occur here: it would need the three internal sources and every GVF in one entry.) """
        for ent in levels:
            if ent.endswith(('-*', '-+')):
                b = ent[:-2]
                others = len(ss - {b})
                if b in ss and others >= (0 if ent.endswith('*') else 1) and \
                        others < len(singles) - 1:
                    return ent
            elif ss == {ent}:
                return None
        return None
    res = {}
    for seq, entries in case['peptides']:
        best = None
        for e in entries:
            ss = entry_sources(e, ref, src_of, group)
            pat = pattern_of(ss)
            if pat:
                key = (1, [lv[pat]])
                eff = (2, pat[:-2] + ('-ALL' if pat.endswith('*') else '-PLUS'), set())
            else:
                key = (len(ss), sorted(lv[x] for x in ss))
                eff = (len(ss), '-'.join(sorted(ss, key=lambda x: lv[x])), ss)
            if best is None or key < best[0]:
                best = (key, eff)
        size, name, ss = best[1]
        if size <= o['max_groups']:
            res[seq] = name
        else:
            db = 'Remaining'
            for a in o['additional']:
                if set(a) <= ss:
                    db = '-'.join(sorted(a, key=lambda x: lv[x])) + '-additional'
                    break
            res[seq] = db
    return res, levels


def read_fasta_entries(path):
    peps, dups = drive.read_fasta(path)
    return {s: h.split(' ') for s, h in peps.items()}, dups


def ref_ns(d):
    return dict(index_dir=None, genome_fasta=None, annotation_gtf=d/'anno.gtf',
        proteome_fasta=d/'proteome.fasta', reference_source=None,
        invalid_protein_as_noncoding=False, quiet=True, debug_level=1)


def prop(case, ctx):
    # pylint: disable=too-many-locals,too-many-branches,too-many-statements,too-many-return-statements
    import random
    out = Outcome()
    o = case['opts']
    ref = Ref(case['ref'])
    d = ctx.fresh_dir('c18')
    write_reference(ref, d)
    paths = vargen.write_gvfs(ref, case['records'], d)
    random.Random(o['gvf_order']).shuffle(paths)
    gvf_sources = []
    src_of = {}
    for p in paths:
        kind, fi = p.stem.rsplit('_', 1)
        gvf_sources.append(vargen.SOURCE_OF[kind] + (fi if fi != '0' else ''))
    for r in case['records']:
        k = vargen.file_kind(r)
        fi = r.get('file', 0)
        src_of[(ref.gene_of(r['tx'])['id'], vargen.record_id(r))] = \
            vargen.SOURCE_OF[k] + (str(fi) if fi else '')
    fasta = d/'variant.fasta'
    fasta.write_text(''.join(f">{' '.join(e)}\n{s}\n" for s, e in case['peptides']))
    inp = {s: list(e) for s, e in case['peptides']}
    modelled = True
    # ---------------- split
    a = argparse.Namespace(command='splitFasta', gvf=paths, variant_peptides=fasta,
        novel_orf_peptides=None, alt_translation_peptides=None, output_prefix=d/'split'/'db',
        order_source=','.join(o['order']) if o['order'] else None,
        group_source=[f"{o['group'][0]}:{','.join(o['group'][1])}"] if o['group'] else None,
        max_source_groups=o['max_groups'],
        additional_split=['-'.join(x) for x in o['additional']] or None, **ref_ns(d))
    (d/'split').mkdir()
    import signal

    class _Hang(BaseException):
        pass

    def _on_alarm(*_):
        raise _Hang()
    # a split of <= 25 peptides takes milliseconds; not finishing within 60 s (10^4 times
    # longer) is reported as a hang: the wildcard expansion is exponential in the number of
    # sources it believes to exist
    prev = signal.signal(signal.SIGALRM, _on_alarm)
    signal.alarm(60)
    try:
        with quiet():
            mod('split_fasta').split_fasta(a)
    except _Hang:
        return out.fail(f'splitFasta did not finish within 60 s on {len(inp)} peptides '
            f'(order {o["order"]})', 'split-hang', detail=dict(opts=o))
    except MemoryError:
        return out.fail('splitFasta ran out of memory', 'split-hang', detail=dict(opts=o))
    except Exception as e:     # pylint: disable=broad-except
        return out.fail(f'splitFasta raised {type(e).__name__}: {e}', 'split-exc:' +
            type(e).__name__, detail=dict(opts=o))
    finally:
        signal.alarm(0)
        signal.signal(signal.SIGALRM, prev)
    got_db = {}
    for f in sorted((d/'split').glob('db_*.fasta')):
        key = f.stem[len('db_'):]
        ents, dups = read_fasta_entries(f)
        if dups:
            return out.fail(f'database {key} holds a sequence twice: {dups[:2]}', 'split-dup')
        for s, e in ents.items():
            if s in got_db:
                return out.fail(f'{s} was written to two databases: {got_db[s][0]} and {key}',
                    'split-twice')
            got_db[s] = (key, e)
    if set(got_db) != set(inp):
        return out.fail(f'splitFasta lost or invented sequences: missing '
            f'{sorted(set(inp) - set(got_db))[:3]}, new {sorted(set(got_db) - set(inp))[:3]}',
            'split-conservation')
    for s, (key, e) in got_db.items():
        if sorted(e) != sorted(inp[s]):
            return out.fail(f'splitFasta changed the header entries of {s}: {inp[s]} -> {e}',
                'split-entries')
    multi = False
    if modelled:
        exp, levels = model_split(case, ref, gvf_sources, src_of)
        for s, key in exp.items():
            if got_db[s][0] != key:
                return out.fail(f'{s} {inp[s]} was assigned to database {got_db[s][0]}, the '
                    f'highest-priority source set under order {levels}, max groups '
                    f'{o["max_groups"]}, additional {o["additional"]} gives {key}',
                    'split-database', detail=dict(seq=s, entries=inp[s], opts=o))
        for s, entries in case['peptides']:
            sets = {frozenset(entry_sources(e, ref, src_of, o['group'])) for e in entries}
            if len(sets) >= 2:
                multi = True
    # ---------------- merge (round trip of the split + overlapping halves)
    dbs = sorted((d/'split').glob('db_*.fasta'))
    am = argparse.Namespace(command='mergeFasta', input_path=dbs, output_path=d/'merged.fasta',
        dedup_header=False, quiet=True, debug_level=1)
    try:
        with quiet():
            mod('merge_fasta').merge_fasta(am)
    except Exception as e:     # pylint: disable=broad-except
        return out.fail(f'mergeFasta raised {type(e).__name__}: {e}', 'merge-exc')
    merged, dups = read_fasta_entries(d/'merged.fasta')
    if dups or {s: sorted(e) for s, e in merged.items()} != {s: sorted(e) for s, e in
            inp.items()}:
        return out.fail('merging the split databases does not give back the input peptides '
            'with their entries', 'merge-roundtrip')
    peps = case['peptides']
    k = max(1, len(peps) * o['split_point'] // 100)
    half_a = peps[:k]
    # second file: the rest, plus some sequences of the first with OTHER entries
    half_b = peps[k:] + [[s, [e[-1] + '9']] for s, e in peps[:k:2]]
    (d/'a.fasta').write_text(''.join(f">{' '.join(e)}\n{s}\n" for s, e in half_a))
    (d/'b.fasta').write_text(''.join(f">{' '.join(e)}\n{s}\n" for s, e in half_b))
    if half_b:
        am = argparse.Namespace(command='mergeFasta', input_path=[d/'a.fasta', d/'b.fasta'],
            output_path=d/'merged2.fasta', dedup_header=False, quiet=True, debug_level=1)
        with quiet():
            mod('merge_fasta').merge_fasta(am)
        merged2, dups = read_fasta_entries(d/'merged2.fasta')
        expm = {}
        for s, e in half_a + half_b:
            expm.setdefault(s, [])
            expm[s] += e
        if dups or {s: sorted(e) for s, e in merged2.items()} != {s: sorted(e) for s, e in
                expm.items()}:
            return out.fail('mergeFasta of two overlapping FASTAs is not the union of sequences '
                'with the union of entries', 'merge-union')
        # --dedup-header: entries that differ in their trailing index only are duplicates; of
        # each such group exactly one entry (an entry of the input) stays, nothing else goes
        am.dedup_header = True
        am.output_path = d/'merged3.fasta'
        with quiet():
            mod('merge_fasta').merge_fasta(am)
        merged3, dups = read_fasta_entries(d/'merged3.fasta')

        def unindexed(e):
            return e.rsplit('|', 1)[0]
        if dups or set(merged3) != set(expm):
            return out.fail('mergeFasta --dedup-header changed the set of sequences',
                'merge-dedup-seqs')
        for s_, ents in merged3.items():
            keys = [unindexed(e) for e in ents]
            if len(set(keys)) != len(keys) or set(keys) != {unindexed(e) for e in expm[s_]} \
                    or not set(ents) <= set(expm[s_]):
                return out.fail(f'mergeFasta --dedup-header: entries of {s_} are {ents}, input '
                    f'entries {expm[s_]}', 'merge-dedup-entries')
        if any(len({unindexed(e) for e in v}) < len(set(v)) for v in expm.values()):
            out.label('dedup_header_removed_entries')
    # ---------------- encode (with decoys)
    enc_in = d/'enc_in.fasta'
    recs = [(' '.join(e), s) for s, e in peps]
    dec = o['decoy']
    lines = []
    if dec:
        def dh(h):
            return dec[0] + h if dec[1] == 'prefix' else h + dec[0]
        targets = [(h, s) for h, s in recs]
        decoys = [(dh(h), s[::-1]) for h, s in recs]
        if o['decoy_order'] == 'juxtaposed':
            seqrecs = [x for pair in zip(targets, decoys) for x in pair]
        elif o['decoy_order'] == 'target_first':
            seqrecs = targets + decoys
        else:
            seqrecs = decoys + targets
    else:
        seqrecs = recs
    for h, s in seqrecs:
        lines.append(f'>{h}\n{s}\n')
    enc_in.write_text(''.join(lines))
    ae = argparse.Namespace(command='encodeFasta', input_path=enc_in,
        output_path=d/'enc.fasta', decoy_string=dec[0] if dec else 'DECOY_',
        decoy_string_position=dec[1] if dec else 'prefix', quiet=True, debug_level=1)
    try:
        with quiet():
            mod('encode_fasta').encode_fasta(ae)
    except Exception as e:     # pylint: disable=broad-except
        return out.fail(f'encodeFasta raised {type(e).__name__}: {e}', 'encode-exc')
    mapping = {}
    for line in open(str(d/'enc.fasta') + '.dict'):
        kk, v = line.rstrip('\n').split('\t', 1)
        if kk in mapping:
            return out.fail('identifier used twice in the .dict file', 'encode-dict-dup')
        mapping[kk] = v
    enc_recs = []
    hdr = None
    for line in open(d/'enc.fasta'):
        line = line.rstrip('\n')
        if line.startswith('>'):
            hdr = line[1:]
        elif line:
            enc_recs.append((hdr, line))
    if len(enc_recs) != len(seqrecs):
        return out.fail('encodeFasta changed the number of records', 'encode-count')
    for (eh, es), (h, s) in zip(enc_recs, seqrecs):
        if es != s:
            return out.fail('encodeFasta changed a sequence', 'encode-seq')
        ident = eh
        is_decoy = False
        if dec:
            if dec[1] == 'prefix' and eh.startswith(dec[0]):
                ident, is_decoy = eh[len(dec[0]):], True
            elif dec[1] == 'suffix' and eh.endswith(dec[0]):
                ident, is_decoy = eh[:-len(dec[0])], True
        if ident not in mapping:
            return out.fail(f'encoded header {eh} has no entry in the .dict file',
                'encode-missing')
        restored = mapping[ident]
        if is_decoy:
            restored = dec[0] + restored if dec[1] == 'prefix' else restored + dec[0]
        if restored != h:
            return out.fail(f'the .dict file restores {eh} to {restored!r}, original header '
                f'{h!r}', 'encode-restore', detail=dict(order=o['decoy_order'], decoy=dec))
    # ---------------- summarize vs split with max groups = all
    if modelled:
        # summarizeFasta has no wildcard patterns: the comparison uses the order without them
        plain = [x for x in (o['order'] or []) if not x.endswith(('-*', '-+'))]
        asum = argparse.Namespace(command='summarizeFasta', gvf=paths, variant_peptides=fasta,
            novel_orf_peptides=None, alt_translation_peptides=None, output_path=d/'sum.txt',
            output_image=None, order_source=','.join(plain) if plain else None,
            group_source=a.group_source,
            ignore_missing_source=False, plot_normal_scale=False, plot_log_scale=False,
            cleavage_rule='trypsin', cleavage_exception=None, **ref_ns(d))
        try:
            with quiet():
                mod('summarize_fasta').summarize_fasta(asum)
        except Exception as e:     # pylint: disable=broad-except
            return out.fail(f'summarizeFasta raised {type(e).__name__}: {e}', 'summarize-exc')
        totals = {}
        for i, line in enumerate(open(d/'sum.txt')):
            f = line.rstrip('\n').split('\t')
            if i == 0:
                continue
            totals[f[0]] = int(f[1])
            if int(f[1]) != sum(int(x) for x in f[2:]):
                return out.fail(f'summary row {f[0]}: n_total {f[1]} is not the sum of the '
                    'per-miscleavage counts', 'summarize-row')
        big = dict(o, max_groups=99, additional=[], order=plain or None)
        exp_all, _ = model_split(dict(case, opts=big), ref, gvf_sources, src_of)
        sizes = {}
        for s, key in exp_all.items():
            sizes[key] = sizes.get(key, 0) + 1
        if sum(totals.values()) != len(inp):
            return out.fail(f'summary totals add up to {sum(totals.values())}, the FASTA has '
                f'{len(inp)} peptides', 'summarize-total', detail=dict(totals=totals,
                    sizes=sizes))
        for key, n in sizes.items():
            if totals.get(key, 0) != n:
                return out.fail(f'summary row {key} = {totals.get(key)} but splitFasta with the '
                    f'same order / groups puts {n} peptides into that database',
                    'summarize-vs-split', detail=dict(totals=totals, sizes=sizes))
    out.nontrivial = multi or bool(o['group'])
    out.label(f'max_groups:{o["max_groups"]}')
    if o['group']:
        out.label('grouped')
    if o['order']:
        out.label('ordered')
    if o['additional']:
        out.label('additional_split')
    if o.get('wildcard'):
        out.label('wildcard')
    if dec:
        out.label('decoy:' + o['decoy_order'])
    if multi:
        out.label('multi_source_peptide')
    return out
