""" C06 — callVariant's peptide set is independent of threads, file layout, .idx files,
reference index directory and the Python hash seed. """
import io
import argparse
import contextlib
from pathlib import Path
from hypothesis import strategies as st
from vf.harness import Outcome
from vf import cveval, refgen, vargen, drive
from vf.model import Ref, write_reference
from vf.dr import D

ID = 'C06'
LEVEL = 'exploration'
RULE = ('generated multi-gene references (2-4 genes, <=3 isoforms; transcripts that carry only '
    'intronic records or none are skipped by the tool) with small / alternative-splicing / '
    'fusion / circRNA records; baseline run (threads 1, one GVF per record kind, raw reference, '
    'hash seed 0, in-process) versus variant runs: records split over 2-4 GVF files in a '
    'generated order with .idx files on a generated subset (in-process), reference given as a '
    'generateIndex directory (in-process), --threads 2-5 (console entry point in a fresh '
    'process, pathos workers), PYTHONHASHSEED 1/2/3/random (fresh process), and the unchanged '
    'command once more in a fresh process (address-space layout differs only) and once more '
    'inside the checking process after other graphs were built (history differs only). Oracle '
    '(differential): identical sequence sets, exit status 0. Non-trivial = a threaded run '
    'whose number of dispatched transcripts is not a multiple of the thread count while some '
    'transcript is skipped, or a transcript whose records are spread over >= 2 files; distinct '
    'by canonical JSON')
ASSUMPTIONS = [
    'hash seeds and thread counts are sampled; the OS scheduler inside pathos is not controlled',
    'all runs of one case use the same cleavage settings and the default complexity limits',
]
BUDGET = {'quick': 4, 'thorough': 40}
WALL = {'quick': 900, 'thorough': 3 * 3600}


def intronic_records(d, ref:Ref, tid, n):
    """ SNVs inside introns of transcript tid (gene coordinates) """
    ex = ref.exons_gene(tid)
    gseq = ref.gene_seq(ref.gene_of(tid)['id'])
    out = []
    intr = [g for (a, b), (c, _) in zip(ex, ex[1:]) for g in range(b, c)]
    for g0 in d.sample(intr, n):
        refa = gseq[g0]
        out.append(dict(kind='small', tx=tid, g=g0, ref=refa,
            alt=d.choice([x for x in 'ACGT' if x != refa])))
    return out


@st.composite
def strategy_(draw, tier):
    d = D(draw)
    refd = refgen.gen_reference(d, n_genes=(2, 4), max_tx=d.choice([2, 3]), p_nf=0.05,
        n_exons=(2, 4), utr_styles=('gencode',))
    ref = Ref(refd)
    tids = list(ref.txs)
    records = []
    skipped = []
    for tid in tids:
        r = d.rng.random()
        if r < 0.22:
            intr = intronic_records(d, ref, tid, d.randint(1, 2))
            if intr:
                records += intr
                skipped.append(tid)
            continue
        if r < 0.3:
            continue
        records += vargen.gen_small(d, ref, tid, d.randint(1, 5), spread=d.choice([10, 30]))
        if d.chance(0.15):
            records += intronic_records(d, ref, tid, 1)
        if d.chance(0.2):
            records += vargen.gen_as(d, ref, tid, 1)
        if d.chance(0.15):
            records.append(vargen.gen_circ(d, ref, tid))
    if d.chance(0.4) and len(tids) >= 2:
        a, b = d.sample(tids, 2)
        f = vargen.gen_fusion(d, ref, a, b)
        if f:
            records.append(f)
    seen = set()
    uniq = []
    for r in records:
        k = (r['tx'], vargen.record_id(r))
        if k not in seen:
            seen.add(k)
            uniq.append(r)
    records = uniq
    opts = cveval.gen_opts(d, cveval.ALL_ENZYMES, alt=True, limits=True)
    opts['exception'] = 'auto'
    opts['max_variants_per_node'] = (7,)
    opts['additional_variants_per_misc'] = (2,)
    # the tool's own default: after a per-transcript timeout the tool retries with lower
    # complexity limits, i.e. its output then depends on the wall clock; with the driver's
    # 60 s a loaded machine produced "differs" that no replay reproduced
    opts['timeout_seconds'] = 1800
    n = len(records)
    variants = []
    for _ in range(2):
        nf = d.randint(2, 4)
        variants.append(dict(kind='layout', assign=[d.randint(0, nf - 1) for _ in range(n)],
            order_seed=d.randint(0, 10 ** 6), idx_mask=d.randint(0, 255)))
    variants.append(dict(kind='index_dir', assign=[d.randint(0, 1) for _ in range(n)],
        order_seed=d.randint(0, 10 ** 6), idx_mask=d.randint(0, 255)))
    variants.append(dict(kind='threads', threads=d.choice([2, 3, 4, 5]),
        assign=[d.randint(0, d.choice([0, 1])) for _ in range(n)],
        order_seed=d.randint(0, 10 ** 6), idx_mask=d.randint(0, 255) if d.chance(0.3) else 0))
    variants.append(dict(kind='hashseed', hashseed=d.choice(['1', '2', '3', 'random']),
        assign=[0] * n, order_seed=0, idx_mask=0))
    # the very same command once more, in a fresh process: with nothing varied the output may
    # not vary either (address-space layout is the only thing that differs between the runs)
    variants.append(dict(kind='repeat', hashseed='0', assign=[0] * n, order_seed=0, idx_mask=0))
    # ... and once more inside this process, which has built other graphs in the meantime: the
    # result of a transcript may not depend on what the process handled before (with
    # --threads N every worker sees its own sequence of transcripts)
    variants.append(dict(kind='again', assign=[0] * n, order_seed=0, idx_mask=0))
    return dict(ref=refd, records=records, opts=opts, variants=variants, skipped=skipped)


def strategy(tier):
    return strategy_(tier)


def index_gvf(path):
    import importlib
    m = importlib.import_module('moPepGen.cli.index_gvf')
    a = argparse.Namespace(command='indexGVF', input_path=Path(path), quiet=True,
        debug_level=1)
    with contextlib.redirect_stdout(io.StringIO()), contextlib.redirect_stderr(io.StringIO()):
        m.index_gvf(a)


def layout(case, ref, d, v):
    """ write the GVF files of one variant run; returns the ordered path list """
    import random
    recs = [dict(r, file=v['assign'][i]) for i, r in enumerate(case['records'])]
    for p in list(d.glob('*.gvf')) + list(d.glob('*.gvf.idx')):
        p.unlink()
    paths = vargen.write_gvfs(ref, recs, d)
    rng = random.Random(v['order_seed'])
    rng.shuffle(paths)
    for i, p in enumerate(paths):
        if v['idx_mask'] >> (i % 8) & 1:
            index_gvf(p)
    return paths


def prop(case, ctx):
    # pylint: disable=too-many-locals,too-many-branches,too-many-statements,too-many-return-statements
    out = Outcome()
    o = case['opts']
    out.label('rule:' + o['rule'])
    if not case['records']:
        return out.label('no_records')
    ref = Ref(case['ref'])
    d = ctx.fresh_dir('c06')
    write_reference(ref, d)
    base_paths = vargen.write_gvfs(ref, case['records'], d)
    try:
        base, _, _ = drive.call_variant(d, base_paths, o, out_name='base.fasta')
    except Exception as e:     # pylint: disable=broad-except
        if 'Failed to finish transcript' in str(e):
            out.inconclusive = 'tool_timeout'
            return out
        # crashes are C01's business; nothing to compare
        out.inconclusive = 'baseline_crashed:' + cveval.crash_bucket(e)
        return out
    base = set(base)
    dispatched = {r['tx'] for r in case['records']} - set(case.get('skipped', []))
    spread = False
    nontrivial = False
    for v in case['variants']:
        try:
            paths = layout(case, ref, d, v)
        except Exception as e:     # pylint: disable=broad-except
            return out.fail(f'indexGVF raised {type(e).__name__}: {e}', 'indexGVF-exc')
        files_of = {}
        for i, r in enumerate(case['records']):
            files_of.setdefault(r['tx'], set()).add((vargen.file_kind(r), v['assign'][i]))
        spread_here = any(len(x) >= 2 for x in files_of.values())
        desc = f"{v['kind']} files={[p.name for p in paths]}"
        try:
            if v['kind'] in ('layout', 'again'):
                got, _, _ = drive.call_variant(d, paths, o, out_name='v.fasta')
            elif v['kind'] == 'index_dir':
                idx = d/'index'
                if idx.exists():
                    import shutil
                    shutil.rmtree(idx)
                drive.generate_index(d, idx, o)
                got, _, _ = drive.call_variant(d, paths, o, out_name='v.fasta', index_dir=idx)
            elif v['kind'] == 'threads':
                desc += f" threads={v['threads']}"
                rc, got, _, err, _ = drive.call_variant_cli(d, paths,
                    dict(o, threads=v['threads']), out_name='v.fasta')
                if rc != 0 and 'Failed to finish transcript' in err:
                    out.inconclusive = 'tool_timeout'
                    return out
                if rc != 0:
                    return out.fail(f'{desc}: exit status {rc}: {err[-300:]}',
                        'threads-exit')
            else:
                desc += f" PYTHONHASHSEED={v['hashseed']}"
                rc, got, _, err, _ = drive.call_variant_cli(d, paths, o, out_name='v.fasta',
                    hashseed=v['hashseed'])
                if rc != 0 and 'Failed to finish transcript' in err:
                    out.inconclusive = 'tool_timeout'
                    return out
                if rc != 0:
                    return out.fail(f'{desc}: exit status {rc}: {err[-300:]}',
                        v['kind'] + '-exit')
        except Exception as e:     # pylint: disable=broad-except
            if 'Failed to finish transcript' in str(e):
                out.inconclusive = 'tool_timeout'
                return out
            return out.fail(f'{desc}: raised {type(e).__name__}: {e} although the baseline '
                'run succeeded', v['kind'] + '-exc:' + cveval.crash_bucket(e))
        got = set(got)
        if got != base:
            only_base = sorted(base - got)[:4]
            only_var = sorted(got - base)[:4]
            return out.fail(f'{desc}: peptide set differs from the baseline run (threads 1, one '
                f'file per kind, raw reference, hash seed 0): {len(base - got)} missing e.g. '
                f'{only_base}, {len(got - base)} extra e.g. {only_var}', 'differs:' + v['kind'],
                detail=dict(variant=v, missing=only_base, extra=only_var))
        out.label('run:' + v['kind'])
        if spread_here and v['kind'] in ('layout', 'index_dir', 'threads'):
            spread = True
        if v['kind'] == 'threads' and len(dispatched) % v['threads'] != 0 and \
                case.get('skipped'):
            nontrivial = True
            out.label('threads_partial_batch_with_skipped_tx')
    if spread:
        out.label('tx_spread_over_files')
    out.nontrivial = bool(base) and (nontrivial or spread)
    if base:
        out.label('output_nonempty')
    out.label('n_tx:%d' % len(ref.txs))
    return out
