""" C16 — parseRMATS records reproduce the alternative isoform. """
import io
import argparse
import importlib
import contextlib
from hypothesis import strategies as st
from vf.harness import Outcome
from vf import refgen
from vf.model import Ref, write_reference, rc
from vf.dr import D

ID = 'C16'
LEVEL = 'exploration'
RULE = ('generated multi-isoform genes (3-5 exon blocks, 1-3 annotated isoforms derived by exon '
    'skipping / alternative sites / intron retention / truncation, both strands); from the '
    'primary transcript T one event per rMATS type is derived in rMATS\' own coordinates: SE '
    '(T includes the exon, or a novel exon inside an intron of T), A5SS / A3SS (T has the long '
    'or the short form, on either genomic side as the strand dictates), MXE (T has the first '
    'or the second exon), RI (T spliced); read counts around --min-ijc / --min-sjc. Oracle: if '
    'the alternative form is not annotated in any isoform and its read support reaches the '
    'threshold, EVERY record emitted for T with that '
    'event\'s id, applied to T under the documented <DEL> / <INS> / <SUB> semantics, gives '
    'exactly the sequence of the alternative exon structure read from the genome; below the '
    'threshold or when every junction of the event is annotated no record is emitted for T; '
    'records for other isoforms must have REF = gene sequence at POS and ranges inside the gene. '
    'Non-trivial = minus strand, or a record for T, or an annotated alternative form; distinct '
    'by canonical JSON')
ASSUMPTIONS = [
    'rMATS reports upstream / downstream exons in genomic order and 0-based starts',
    'GVF semantics of docs/file-format.md: <DEL> removes gene range [START, END); <INS> inserts '
    'gene range [DONOR_START, DONOR_END) after POS; <SUB> replaces [START, END) by the donor '
    'range',
]
BUDGET = {'quick': 600, 'thorough': 15000}
TYPES = ['SE', 'A5SS', 'A3SS', 'MXE', 'RI']
HEAD = {
    'SE': 'ID\tGeneID\tgeneSymbol\tchr\tstrand\texonStart_0base\texonEnd\tupstreamES\t'
        'upstreamEE\tdownstreamES\tdownstreamEE',
    'A5SS': 'ID\tGeneID\tgeneSymbol\tchr\tstrand\tlongExonStart_0base\tlongExonEnd\tshortES\t'
        'shortEE\tflankingES\tflankingEE',
    'A3SS': 'ID\tGeneID\tgeneSymbol\tchr\tstrand\tlongExonStart_0base\tlongExonEnd\tshortES\t'
        'shortEE\tflankingES\tflankingEE',
    'MXE': 'ID\tGeneID\tgeneSymbol\tchr\tstrand\t1stExonStart_0base\t1stExonEnd\t'
        '2ndExonStart_0base\t2ndExonEnd\tupstreamES\tupstreamEE\tdownstreamES\tdownstreamEE',
    'RI': 'ID\tGeneID\tgeneSymbol\tchr\tstrand\triExonStart_0base\triExonEnd\tupstreamES\t'
        'upstreamEE\tdownstreamES\tdownstreamEE',
}
TAIL = '\tID\tIJC_SAMPLE_1\tSJC_SAMPLE_1\tIJC_SAMPLE_2\tSJC_SAMPLE_2\tIncFormLen\tSkipFormLen\t' \
    'PValue\tFDR\tIncLevel1\tIncLevel2\tIncLevelDifference'


@contextlib.contextmanager
def quiet():
    with contextlib.redirect_stdout(io.StringIO()), contextlib.redirect_stderr(io.StringIO()):
        yield


def gen_event(d, kind, ex, strand):
    """ one event derived from the exon list of T; returns dict(fields=[...], alt=[exons of
    the alternative isoform], t_form='inc'|'skip') or None """
    n = len(ex)
    if kind == 'SE':
        if n >= 4 and d.chance(0.25):
            # T carries a further exon between the event's exon and its downstream (or
            # upstream) flank: both forms of the event differ from T; a record for T must
            # turn it into one of them
            i = d.randint(1, n - 3)
            if d.chance(0.5):
                return dict(fields=[*ex[i], *ex[i - 1], *ex[i + 2]], t_form='wide',
                    alt=ex[:i] + ex[i + 2:], alt2=ex[:i + 1] + ex[i + 2:])
            return dict(fields=[*ex[i + 1], *ex[i - 1], *ex[i + 2]], t_form='wide',
                alt=ex[:i] + ex[i + 2:], alt2=ex[:i] + ex[i + 1:])
        if d.chance(0.5) and n >= 3:
            i = d.randint(1, n - 2)
            return dict(fields=[*ex[i], *ex[i - 1], *ex[i + 1]], t_form='inc',
                alt=ex[:i] + ex[i + 1:])
        i = d.randint(0, n - 2)
        lo, hi = ex[i][1] + 2, ex[i + 1][0] - 2
        if hi - lo < 3:
            return None
        a = d.randint(lo, hi - 3)
        b = d.randint(a + 3, hi)
        return dict(fields=[a, b, *ex[i], *ex[i + 1]], t_form='skip',
            alt=ex[:i + 1] + [[a, b]] + ex[i + 1:])
    if kind in ('A5SS', 'A3SS'):
        # which genomic side of the exon moves
        side = 'end' if (kind == 'A5SS') == (strand == 1) else 'start'
        cands = list(range(0, n - 1)) if side == 'end' else list(range(1, n))
        i = d.choice(cands)
        k = d.randint(1, 9)
        s, e = ex[i]
        t_long = d.chance(0.5)
        if side == 'end':
            flank = ex[i + 1]
            if t_long:
                if e - s <= k + 3:
                    return None
                long_, short = [s, e], [s, e - k]
            else:
                if flank[0] - e <= k + 2:
                    return None
                long_, short = [s, e + k], [s, e]
        else:
            flank = ex[i - 1]
            if t_long:
                if e - s <= k + 3:
                    return None
                long_, short = [s, e], [s + k, e]
            else:
                if s - flank[1] <= k + 2:
                    return None
                long_, short = [s - k, e], [s, e]
        alt = [list(x) for x in ex]
        alt[i] = short if t_long else long_
        return dict(fields=[*long_, *short, *flank], t_form='inc' if t_long else 'skip',
            alt=alt)
    if kind == 'MXE':
        if n < 3:
            return None
        i = d.randint(1, n - 2)
        t_first = d.chance(0.5)
        if t_first:
            lo, hi = ex[i][1] + 2, ex[i + 1][0] - 2
        else:
            lo, hi = ex[i - 1][1] + 2, ex[i][0] - 2
        if hi - lo < 3:
            return None
        a = d.randint(lo, hi - 3)
        b = d.randint(a + 3, hi)
        first, second = (ex[i], [a, b]) if t_first else ([a, b], ex[i])
        alt = [list(x) for x in ex]
        alt[i] = [a, b]
        return dict(fields=[*first, *second, *ex[i - 1], *ex[i + 1]],
            t_form='inc' if t_first else 'skip', alt=alt)
    i = d.randint(0, n - 2)
    if ex[i + 1][0] - ex[i][1] < 2:
        return None
    alt = ex[:i] + [[ex[i][0], ex[i + 1][1]]] + ex[i + 2:]
    return dict(fields=[ex[i][0], ex[i + 1][1], *ex[i], *ex[i + 1]], t_form='skip', alt=alt)


@st.composite
def strategy_(draw, tier):
    d = D(draw)
    refd = refgen.gen_reference(d, n_genes=(1, 1), max_tx=d.choice([1, 1, 2, 3]), p_nf=0.0,
        n_exons=(3, 5), intron_len=(8, 40), exon_len=(12, 50), p_coding=0.5)
    g = refd['genes'][0]
    ex = [list(x) for x in g['txs'][0]['exons']]
    th = dict(min_ijc=d.choice([1, 3]), min_sjc=d.choice([1, 3]))
    events = {}
    for kind in d.sample(TYPES, d.randint(1, 5)):
        ev = gen_event(d, kind, ex, g['strand'])
        if ev:
            ev['ijc'] = d.choice([th['min_ijc'] - 1, th['min_ijc'], th['min_ijc'] + 1, 20])
            ev['sjc'] = d.choice([th['min_sjc'] - 1, th['min_sjc'], th['min_sjc'] + 1, 20])
            events[kind] = ev
    if events and d.chance(0.3):
        # annotate the alternative form of one event as a further isoform of the gene: the
        # event is then not novel and must not be reported
        kind = d.choice(sorted(events))
        alt = events[kind]['alt']
        if all(g['start'] <= a < b <= g['end'] for a, b in alt):
            g['txs'].append(dict(id='ENST00000009999.1', exons=[list(x) for x in alt], cds=None,
                secs=[], tags=[], biotype='retained_intron', pid='ENSP00000009999.1', utr='none'))
    return dict(ref=refd, events=events, th=th)


def strategy(tier):
    return strategy_(tier)


def junctions(exons):
    return {(a[1], b[0]) for a, b in zip(exons, exons[1:])}


def seq_of(ref, g, exons):
    ch = ref.chroms[g['chrom']]
    s = ''.join(ch[a:b] for a, b in exons)
    return s if g['strand'] == 1 else rc(s)


def event_ids(ref, g, kind, f):
    """ the ids the parser gives the records of an event (gene coordinates of its splice
    sites); A3SS records carry the prefix A5SS_ in this version of the tool """
    def gi(p):
        return ref.gene_index(g['id'], p)
    plus = g['strand'] == 1
    if kind == 'SE':
        uee, es, ee, des = gi(f[3] - 1), gi(f[0]), gi(f[1] - 1), gi(f[4])
        if not plus:
            es, ee = ee, es
            uee, des = des, uee
        return [f'SE_{uee}-{es}-{ee + 1}-{des + 1}']
    if kind == 'A5SS':
        if plus:
            x = (gi(f[1] - 1) + 1, gi(f[3] - 1) + 1, gi(f[4]))
        else:
            x = (gi(f[0]) + 1, gi(f[2]) + 1, gi(f[5] - 1))
        return ['A5SS_%d-%d-%d' % x]
    if kind == 'A3SS':
        if plus:
            x = (gi(f[5] - 1) + 1, gi(f[0]), gi(f[2]))
        else:
            x = (gi(f[4]) + 1, gi(f[1] - 1), gi(f[3] - 1))
        return ['A3SS_%d-%d-%d' % x, 'A5SS_%d-%d-%d' % x]
    return None


def apply_record(ref, tid, r):
    """ apply one GVF record (gene coordinates) to transcript tid; returns the sequence or
    raises ValueError when the record cannot be applied to this transcript """
    g = ref.gene_of(tid)
    gseq = ref.gene_seq(g['id'])
    tg = ref.tx_gene(tid)
    tseq = ref.tx_seq(tid)
    at = r['attrs']
    alt = r['alt'].upper()
    if alt == '<DEL>':
        s, e = int(at['START']) - 1, int(at['END'])
        keep = [c for c, p in zip(tseq, tg) if not s <= p < e]
        if len(keep) == len(tseq):
            raise ValueError('deletion range does not touch the transcript')
        return ''.join(keep)
    donor = gseq[int(at['DONOR_START']) - 1:int(at['DONOR_END'])]
    if alt == '<INS>':
        if r['pos'] not in tg:
            raise ValueError(f'insertion position {r["pos"] + 1} is not exonic in {tid}')
        i = tg.index(r['pos'])
        return tseq[:i + 1] + donor + tseq[i + 1:]
    if alt == '<SUB>':
        s, e = int(at['START']) - 1, int(at['END'])
        idx = [i for i, p in enumerate(tg) if s <= p < e]
        if not idx:
            raise ValueError('substitution range does not touch the transcript')
        return tseq[:idx[0]] + donor + tseq[idx[-1] + 1:]
    raise ValueError(f'unknown ALT {r["alt"]}')


def prop(case, ctx):
    # pylint: disable=too-many-locals,too-many-branches,too-many-statements,too-many-return-statements
    from vf.checks.c14 import parse_gvf, ref_ns
    out = Outcome()
    if not case['events']:
        return out.label('no_event')
    ref = Ref(case['ref'])
    g = case['ref']['genes'][0]
    tid = g['txs'][0]['id']
    d = ctx.fresh_dir('c16')
    write_reference(ref, d)
    st_ = '+' if g['strand'] == 1 else '-'
    files = {}
    for kind, ev in case['events'].items():
        row = '\t'.join(['0', f'"{g["id"]}"', f'"{g["name"]}"', g['chrom'], st_] +
            [str(x) for x in ev['fields']] + ['0', str(ev['ijc']), str(ev['sjc']), '', '', '148',
            '74', 'NA', 'NA', 'NA', '', 'NA'])
        p = d/f'{kind}.txt'
        p.write_text(HEAD[kind] + TAIL + '\n' + row + '\n')
        files[kind] = p
    a = argparse.Namespace(command='parseRMATS', skipped_exon=files.get('SE'),
        alternative_5_splicing=files.get('A5SS'), alternative_3_splicing=files.get('A3SS'),
        mutually_exclusive_exons=files.get('MXE'), retained_intron=files.get('RI'),
        min_ijc=case['th']['min_ijc'], min_sjc=case['th']['min_sjc'], output_path=d/'as.gvf',
        source='AltSplice', **ref_ns(d))
    try:
        with quiet():
            importlib.import_module('moPepGen.cli.parse_rmats').parse_rmats(a)
    except Exception as e:     # pylint: disable=broad-except
        return out.fail(f'parseRMATS raised {type(e).__name__}: {e} (events '
            f'{ {k: v["fields"] for k, v in case["events"].items()} }, strand {g["strand"]})',
            'exc:' + type(e).__name__)
    recs = parse_gvf(d/'as.gvf')
    gseq = ref.gene_seq(g['id'])
    all_j = set()
    retained_spans = []
    for t in g['txs']:
        all_j |= junctions(t['exons'])
        retained_spans += [tuple(x) for x in t['exons']]
    t_ex = g['txs'][0]['exons']
    nontrivial = g['strand'] == -1
    for r in recs:
        if r['gene'] != g['id'] or gseq[r['pos']:r['pos'] + 1] != r['ref']:
            return out.fail(f'record {r["id"]} for {r["attrs"].get("TRANSCRIPT_ID")}: REF '
                f'{r["ref"]} is not the gene sequence at POS {r["pos"] + 1}', 'ref')
        for k in ('START', 'END', 'DONOR_START', 'DONOR_END'):
            if k in r['attrs'] and not 0 <= int(r['attrs'][k]) <= len(gseq):
                return out.fail(f'record {r["id"]}: {k}={r["attrs"][k]} outside the gene',
                    'range')
    for kind, ev in case['events'].items():
        ids = event_ids(ref, g, kind, ev['fields'])
        mine = [r for r in recs if (r['id'] in ids if ids else r['id'].startswith(kind + '_'))
            and r['attrs'].get('TRANSCRIPT_ID') == tid]
        alt_j = junctions(ev['alt']) - junctions(t_ex)
        if kind == 'RI':
            a0, b0 = ev['fields'][3], ev['fields'][4]
            annotated = any(s < a0 < b0 < e - 1 for s, e in retained_spans)
        elif kind == 'MXE':
            f = ev['fields']
            key = (f[5], f[2]) if ev['t_form'] == 'inc' else (f[1], f[6])
            annotated = key in all_j
        else:
            annotated = alt_j <= all_j
        if ev['t_form'] == 'wide':
            support = ev['sjc'] >= case['th']['min_sjc'] or ev['ijc'] >= case['th']['min_ijc']
        else:
            support = ev['sjc'] >= case['th']['min_sjc'] if ev['t_form'] == 'inc' else \
                ev['ijc'] >= case['th']['min_ijc']
        desc = f'{kind} {ev["fields"]} (T has the {dict(inc="inclusion/long/first", skip="skipped/short/second", wide="inclusion form plus a further exon inside the event")[ev["t_form"]]} form, ' \
            f'strand {g["strand"]}, IJC {ev["ijc"]} SJC {ev["sjc"]}, thresholds {case["th"]})'
        if annotated:
            nontrivial = True
            out.label(kind + ':annotated')
            if mine and all(junctions(e2['alt']) - junctions(t_ex) <= all_j or k2 == kind
                    for k2, e2 in case['events'].items()):
                # the alternative form exists in an annotated isoform: nothing to report
                if ev['t_form'] != 'wide':
                    return out.fail(f'{desc}: the alternative form is annotated in an isoform '
                        f'but {len(mine)} record(s) were emitted for {tid}', 'annotated-emitted')
            continue
        if not support:
            if mine:
                return out.fail(f'{desc}: read support of the alternative form is below the '
                    f'threshold but {len(mine)} record(s) were emitted for {tid}',
                    'below-threshold:' + kind)
            out.label(kind + ':below_threshold')
            continue
        if not mine:
            # the statement demands correct records, not that every event be convertible
            # (e.g. an alternative site of the last exon is not converted by the tool)
            out.label(kind + ':no_record')
            continue
        expect = seq_of(ref, g, ev['alt'])
        expects = [expect] + ([seq_of(ref, g, ev['alt2'])] if ev.get('alt2') else [])
        for r in mine:
            try:
                got = apply_record(ref, tid, r)
            except ValueError as e:
                return out.fail(f'{desc}: record {r["id"]} {r["alt"]} {r["attrs"]} cannot be '
                    f'applied to {tid}: {e}', 'not-applicable:' + kind)
            if got not in expects:
                return out.fail(f'{desc}: record {r["id"]} POS {r["pos"] + 1} {r["alt"]} '
                    f'{ {k: v for k, v in r["attrs"].items() if k in ("START", "END", "DONOR_START", "DONOR_END")} } '
                    f'applied to {tid} does not give the alternative isoform {ev["alt"]}',
                    f'wrong-sequence:{kind}:{ev["t_form"]}:' + ('minus' if g['strand'] == -1
                        else 'plus'), detail=dict(event=ev, exons=t_ex, got=got, expect=expect))
        nontrivial = True
        out.label(f'{kind}:{ev["t_form"]}:ok')
    out.nontrivial = nontrivial
    return out
