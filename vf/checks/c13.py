""" C13 — GVF files: lossless round trip and index-equivalent access. """
import os
import io
import argparse
import contextlib
from pathlib import Path
from collections import Counter
from hypothesis import strategies as st
from vf.harness import Outcome
from vf.dr import D

ID = 'C13'
LEVEL = 'exploration'
RULE = ('generated GVF file sets (variant records of every kind the parsers emit, circRNA '
    'records) in arbitrary groupings over 1-3 files, with and without .idx, plus '
    'edit-after-index histories; non-trivial = >=2 record kinds and some transcript occurs '
    'in >=2 separate runs or >=2 files; distinct by canonical JSON of the case')
ASSUMPTIONS = [
    'expected GVF text is derived from docs/file-format.md by an independent printer '
    '(1-based POS; START/DONOR_START/ACCEPTER_START/ACCEPTER_POSITION written 1-based)',
    'record attribute sets are those the bundled parsers emit',
]
BUDGET = {'quick': 1000, 'thorough': 20000}
POSITION_ATTRS = {'START', 'DONOR_START', 'ACCEPTER_START', 'ACCEPTER_POSITION'}
SYMBOLIC = {'Fusion': '<FUSION>', 'Insertion': '<INS>', 'Deletion': '<DEL>',
    'Substitution': '<SUB>'}


# ---------------------------------------------------------------- generator
@st.composite
def strategy_(draw, tier):
    d = D(draw)
    n_tx = d.randint(1, 4)
    txs = [f'ENST{d.randint(1, 9)}{i}.{d.randint(1, 3)}' for i in range(n_tx)]
    genes = {t: f'ENSG{i // 2}.1' for i, t in enumerate(txs)}
    n_files = d.randint(1, 3)
    files = []
    for fi in range(n_files):
        is_circ = d.chance(0.25)
        recs = []
        for _ in range(d.randint(1, 7)):
            tx = d.choice(txs)
            gene = genes[tx]
            start = d.randint(0, 500)
            if is_circ:
                nfrag = d.randint(1, 3)
                frags = []
                pos = start
                for _ in range(nfrag):
                    ln = d.randint(1, 40)
                    frags.append([pos, pos + ln])
                    pos += ln + d.randint(0, 30)
                introns = [i + 1 for i in range(nfrag) if d.chance(0.2)]
                prefix = 'CI' if introns and nfrag == 1 else 'CIRC'
                recs.append(dict(kind='circRNA', gene=gene, tx=tx, frags=frags,
                    introns=introns, id=f'{prefix}-{tx}-{start}:{pos}',
                    symbol=d.choice(['GN1', 'AB-2', 'C1orf5']),
                    genomic_position=d.choice(['chr1:10-20', 'chrX:5', ''])))
                continue
            kind = d.choice(['SNV', 'SNV', 'INDEL', 'INDEL', 'MNV', 'RES', 'Fusion',
                'Insertion', 'Deletion', 'Substitution'])
            attrs = [['TRANSCRIPT_ID', tx]]
            if kind == 'SNV':
                ref = d.letters('ACGT', 1); alt = d.choice([x for x in 'ACGT' if x != ref])
                end = start + 1; vid = f'SNV-{start + 1}-{ref}-{alt}'
                attrs += [['GENOMIC_POSITION', f'chr1:{start + 100}'], ['GENE_SYMBOL', 'GN1']]
            elif kind == 'INDEL':
                if d.chance(0.5):
                    ref = d.letters('ACGT', 1); alt = ref + d.letters('ACGT', d.randint(1, 5))
                else:
                    ref = d.letters('ACGT', d.randint(2, 6)); alt = ref[0]
                end = start + len(ref); vid = f'INDEL-{start + 1}-{ref}-{alt}'
                attrs += [['GENOMIC_POSITION', f'chr1:{start + 100}-{start + 100 + len(ref)}'],
                    ['GENE_SYMBOL', 'GN1']]
            elif kind == 'MNV':
                ref = d.letters('ACGT', d.randint(2, 5)); alt = d.letters('ACGT', d.randint(2, 5))
                end = start + len(ref); vid = f'MNV-{start + 1}-{ref}-{alt}'
                attrs += [['GENOMIC_POSITION', f'chr1:{start + 100}'], ['GENE_SYMBOL', 'GN1']]
            elif kind == 'RES':
                ref = d.choice('AC'); alt = 'G' if ref == 'A' else 'T'
                end = start + 1; vid = f'RES-{start + 1}-{ref}-{alt}'
                attrs += [['GENOMIC_POSITION', f'chr1:{start + 100}'],
                    ['STRAND', d.choice([1, -1])]]
            elif kind == 'Fusion':
                ref = d.letters('ACGT', 1); alt = '<FUSION>'; end = start + 1
                atx = d.choice(txs); apos = d.randint(0, 500)
                vid = f'FUSION-{tx}:{start}-{atx}:{apos}'
                attrs += [['GENE_SYMBOL', 'GN1'], ['GENOMIC_POSITION', f'chr1:{start + 100}:{start + 100}'],
                    ['ACCEPTER_GENE_ID', genes[atx]], ['ACCEPTER_TRANSCRIPT_ID', atx],
                    ['ACCEPTER_SYMBOL', 'GN2'], ['ACCEPTER_POSITION', apos],
                    ['ACCEPTER_GENOMIC_POSITION', f'chr2:{apos + 7}:{apos + 7}']]
            elif kind == 'Deletion':
                ref = d.letters('ACGT', 1); alt = '<DEL>'; end = start + d.randint(1, 80)
                vid = f'{d.choice(["SE", "RI", "A5SS", "A3SS"])}-{start}-{end}'
                attrs += [['START', start], ['END', end], ['GENE_SYMBOL', 'GN1'],
                    ['GENOMIC_POSITION', f'chr1:{start + 100}-{end + 100}']]
            elif kind == 'Insertion':
                ref = d.letters('ACGT', 1); alt = '<INS>'; end = start + 1
                ds = d.randint(0, 600); de = ds + d.randint(1, 80)
                vid = f'{d.choice(["SE", "RI", "A5SS", "A3SS"])}-{ds}-{de}'
                attrs += [['DONOR_GENE_ID', gene], ['DONOR_START', ds], ['DONOR_END', de],
                    ['GENE_SYMBOL', 'GN1'], ['GENOMIC_POSITION', f'chr1:{ds + 100}-{de + 100}']]
            else:
                ref = d.letters('ACGT', 1); alt = '<SUB>'; end = start + d.randint(1, 80)
                ds = d.randint(0, 600); de = ds + d.randint(1, 80)
                vid = f'MXE-{start}-{end}-{ds}-{de}'
                attrs += [['START', start], ['END', end], ['DONOR_START', ds], ['DONOR_END', de],
                    ['DONOR_GENE_ID', gene], ['GENE_SYMBOL', 'GN1'],
                    ['GENOMIC_POSITION', f'chr1:{ds + 100}-{de + 100}']]
            recs.append(dict(kind=kind, gene=gene, tx=tx, start=start, end=end, ref=ref,
                alt=alt, id=vid, attrs=attrs))
            if kind in ('Insertion', 'Substitution', 'Fusion') and d.chance(0.35):
                # a second event anchored at the same position that differs in one coordinate
                # attribute only (rMATS: retained intron and A5SS extension starting at the
                # same base; two alternative exons of one MXE; one donor breakpoint joined to
                # two acceptor positions)
                which = 'ACCEPTER_POSITION' if kind == 'Fusion' else \
                    d.choice(['DONOR_END', 'DONOR_END', 'DONOR_START'])
                attrs2 = [[k, (v + d.randint(1, 40) if k == which else v)] for k, v in attrs]
                recs.append(dict(kind=kind, gene=gene, tx=tx, start=start, end=end, ref=ref,
                    alt=alt, id=vid + '-' + str(dict(map(tuple, attrs2))[which]), attrs=attrs2,
                    twin=True))
        if d.chance(0.5):
            # group by transcript (what the parsers write); otherwise leave interleaved
            order = []
            for r in recs:
                if r['tx'] not in order:
                    order.append(r['tx'])
            recs = [r for t in order for r in recs if r['tx'] == t]
        # metadata paths as the parsers record them; real paths may hold non-ASCII characters
        # (byte offsets and character offsets then differ)
        mpath = d.choice([None, None, '/data/ref/index', '/home/ren\u00e9e/r\u00e9f\u00e9rence',
            '/srv/\u57fa\u56e0\u7ec4/GRCh38', '/mnt/Z\u00fcrich/\u03b2-test'])
        files.append(dict(circ=is_circ, records=recs, idx=d.chance(0.5), meta_path=mpath,
            tamper=d.choice([None, None, None, 'append', 'flip', 'nochecksum']),
            touch_idx=d.chance(0.5)))
    return dict(files=files)


def strategy(tier):
    return strategy_(tier)


# ---------------------------------------------------------------- model printer
def expected_line(r):
    if r['kind'] == 'circRNA':
        start = r['frags'][0][0]
        off = ','.join(str(a - start) for a, _ in r['frags'])
        ln = ','.join(str(b - a) for a, b in r['frags'])
        intr = ','.join(str(x) for x in r['introns'])
        info = (f"OFFSET={off};LENGTH={ln};INTRON={intr};TRANSCRIPT_ID={r['tx']};"
            f"GENE_SYMBOL={r['symbol']};GENOMIC_POSITION={r['genomic_position']}")
        return '\t'.join([r['gene'], str(start), r['id'], '.', '.', '.', '.', info])
    info = []
    for k, v in r['attrs']:
        if k in POSITION_ATTRS:
            v = int(v) + 1
        info.append(f'{k}={v}')
    return '\t'.join([r['gene'], str(r['start'] + 1), r['id'], r['ref'][0] if
        r['alt'].startswith('<') else r['ref'], r['alt'], '.', '.', ';'.join(info)])


COORD_ATTRS = {'START', 'END', 'DONOR_START', 'DONOR_END', 'DONOR_TRANSCRIPT_ID',
    'LEFT_INSERT_START', 'LEFT_INSERT_END', 'RIGHT_INSERT_START', 'RIGHT_INSERT_END',
    'ACCEPTER_TRANSCRIPT_ID', 'ACCEPTER_POSITION'}


def coord_key(line):
    """ the coordinates of a GVF line: everything but the id and descriptive attributes """
    c = line.rstrip('\n').split('\t')
    attrs = tuple(sorted(x for x in c[7].split(';') if x.split('=')[0] in COORD_ATTRS))
    return (c[0], c[1], c[3], c[4], attrs)


# ---------------------------------------------------------------- drivers
def to_record(r):
    from moPepGen import seqvar, circ
    from moPepGen.SeqFeature import FeatureLocation, SeqFeature
    if r['kind'] == 'circRNA':
        frs = [SeqFeature(chrom=r['gene'], location=FeatureLocation(seqname=r['gene'],
            start=a, end=b), attributes={}, type='intron' if i + 1 in r['introns'] else 'exon')
            for i, (a, b) in enumerate(r['frags'])]
        return circ.CircRNAModel(r['tx'], frs, list(r['introns']), r['id'], r['gene'],
            r['symbol'], r['genomic_position'])
    _type = {'RES': 'RNAEditingSite'}.get(r['kind'], r['kind'])
    return seqvar.VariantRecord(
        FeatureLocation(seqname=r['gene'], start=r['start'], end=r['end']),
        r['ref'], r['alt'], _type, r['id'], {k: v for k, v in r['attrs']})


def body(path):
    return [l.rstrip('\n') for l in open(path) if not l.startswith('#')]


def write_file(f, path):
    from moPepGen import seqvar, circ
    from moPepGen.seqvar.GVFMetadata import GVFMetadata
    recs = [to_record(r) for r in f['records']]
    mp = f.get('meta_path')
    kw = dict(reference_index=mp) if mp and len(mp) % 2 else \
        dict(genome_fasta=mp + '/genome.fa', annotation_gtf=mp + '/anno.gtf') if mp else {}
    if f['circ']:
        md = GVFMetadata(parser='parseCIRCexplorer', source='circRNA', chrom='Gene ID', **kw)
        with open(path, 'w') as h:
            circ.io.write(recs, md, h)
    else:
        md = GVFMetadata(parser='parseVEP', source='gSNP', chrom='Gene ID', **kw)
        seqvar.io.write(recs, str(path), md)


def reparse_write(f, src, dst):
    from moPepGen import seqvar, circ
    from moPepGen.seqvar.GVFMetadata import GVFMetadata
    if f['circ']:
        with open(src) as h:
            recs = list(circ.io.parse(h))
        md = GVFMetadata(parser='parseCIRCexplorer', source='circRNA', chrom='Gene ID')
        with open(dst, 'w') as h:
            circ.io.write(recs, md, h)
    else:
        recs = list(seqvar.io.parse(str(src)))
        md = GVFMetadata(parser='parseVEP', source='gSNP', chrom='Gene ID')
        seqvar.io.write(recs, str(dst), md)
    return recs


def index_gvf(path):
    import importlib
    m = importlib.import_module('moPepGen.cli.index_gvf')
    a = argparse.Namespace(command='indexGVF', input_path=Path(path), quiet=True,
        debug_level=1)
    with contextlib.redirect_stdout(io.StringIO()), contextlib.redirect_stderr(io.StringIO()):
        m.index_gvf(a)


def prop(case, ctx):
    # pylint: disable=too-many-locals,too-many-branches,too-many-statements
    from moPepGen.seqvar.VariantRecordPoolOnDisk import VariantRecordPoolOnDisk, \
        VariantRecordPoolOnDiskOpener
    from moPepGen.seqvar.VariantRecord import VariantRecord
    out = Outcome()
    d = ctx.fresh_dir()
    kinds = set()
    paths = []
    runs = Counter()
    files_of = {}
    for i, f in enumerate(case['files']):
        p = d/f'f{i}.gvf'
        paths.append(p)
        try:
            write_file(f, p)
        except Exception as e:     # pylint: disable=broad-except
            return out.fail(f'writer raised {type(e).__name__}: {e}', 'write-exc')
        exp = [expected_line(r) for r in f['records']]
        got = body(p)
        if got != exp:
            diff = [(a, b) for a, b in zip(got, exp) if a != b][:2]
            return out.fail(f'written GVF text differs from the documented format: {diff}',
                'write-text')
        # round trip
        try:
            recs = reparse_write(f, p, d/f'f{i}.rt.gvf')
        except Exception as e:     # pylint: disable=broad-except
            return out.fail(f'parse/re-write raised {type(e).__name__}: {e}', 'parse-exc')
        got2 = body(d/f'f{i}.rt.gvf')
        if got2 != exp:
            diff = [(a, b) for a, b in zip(got2, exp) if a != b][:2]
            return out.fail(f'round trip changed the text: {diff}', 'roundtrip-text')
        # parsed fields
        for r, rec in zip(f['records'], recs):
            kinds.add(r['kind'])
            if r['kind'] == 'circRNA':
                fr = [[int(x.location.start), int(x.location.end)] for x in rec.fragments]
                if fr != r['frags'] or list(rec.intron) != r['introns'] or rec.id != r['id'] \
                        or rec.transcript_id != r['tx'] or rec.gene_id != r['gene'] \
                        or rec.genomic_position != r['genomic_position'] \
                        or rec.gene_name != r['symbol'] \
                        or [x.type for x in rec.fragments] != ['intron' if i + 1 in r['introns']
                            else 'exon' for i in range(len(r['frags']))]:
                    return out.fail(f'parsed circRNA differs from the written one: {r["id"]}',
                        'parse-circ-fields')
                continue
            if (int(rec.location.start), int(rec.location.end)) != (r['start'], r['end']) \
                    or rec.location.seqname != r['gene'] or rec.id != r['id'] \
                    or str(rec.alt) != r['alt'] or rec.transcript_id != r['tx'] \
                    or str(rec.ref) != (r['ref'][0] if r['alt'].startswith('<') else r['ref']):
                return out.fail(f'parsed record differs from the written one: {r["id"]} '
                    f'{rec.location} {rec.ref} {rec.alt}', 'parse-fields')
            for k, v in r['attrs']:
                if str(rec.attrs.get(k)) != str(v):
                    return out.fail(f'attribute {k} of {r["id"]} not preserved: '
                        f'{rec.attrs.get(k)!r} != {v!r}', 'parse-attrs')
            exp_type = {'RES': 'SNV'}.get(r['kind'], r['kind'])
            if rec.type != exp_type:
                return out.fail(f'parsed type {rec.type} != {exp_type}', 'parse-type')
        prev = None
        for r in f['records']:
            if r['tx'] != prev:
                runs[r['tx']] += 1
                prev = r['tx']
            files_of.setdefault(r['tx'], set()).add(i)

    # index-equivalent access
    linear = {}
    for f, p in zip(case['files'], paths):
        for r, line in zip(f['records'], body(p)):
            # the kind of object matters too: a circRNA line read as a variant record writes
            # the same text but is not a circRNA for the caller
            cls = 'CircRNAModel' if r['kind'] == 'circRNA' else 'VariantRecord'
            linear.setdefault(r['tx'], Counter())[(cls, line)] += 1

    def via_pool():
        pool = VariantRecordPoolOnDisk(gvf_files=list(paths), anno=None, genome=None)
        res = {}
        with VariantRecordPoolOnDiskOpener(pool) as pl:
            for key in pl.pointers:
                c = Counter()
                for ptr in pl.pointers[key]:
                    for rec in ptr.load():
                        c[(type(rec).__name__, rec.to_string())] += 1
                res[key] = c
        return res

    def distinct_lost():
        """ the pool gathers the records of a transcript as set(records): every record that
        differs from the others in a coordinate (position, alleles, START/END, donor range,
        acceptor) must survive that step """
        pool = VariantRecordPoolOnDisk(gvf_files=list(paths), anno=None, genome=None)
        with VariantRecordPoolOnDiskOpener(pool) as pl:
            for key in pl.pointers:
                recs = [rec for ptr in pl.pointers[key] for rec in ptr.load()]
                recs = [r for r in recs if isinstance(r, VariantRecord)]
                want = {coord_key(r.to_string()) for r in recs}
                kept = {coord_key(r.to_string()) for r in set(recs)}
                if want - kept:
                    return key, sorted(want - kept)[0]
        return None

    try:
        got = via_pool()
        lost = distinct_lost()
    except Exception as e:     # pylint: disable=broad-except
        return out.fail(f'opening un-indexed GVFs raised {type(e).__name__}: {e}', 'open-exc')
    if lost:
        return out.fail(f'record set of {lost[0]}: a record with its own coordinates {lost[1]} '
            'is dropped as a duplicate of another record when the pool gathers the records '
            'of the transcript', 'pool-set-lost')
    if got != linear:
        return out.fail('record sets through generated pointers differ from a linear scan: '
            f'{sorted(set(got) ^ set(linear)) or [k for k in got if got[k] != linear[k]][:3]}',
            'pointer-generated')
    any_idx = False
    for f, p in zip(case['files'], paths):
        if f['idx']:
            index_gvf(p)
            any_idx = True
    if any_idx:
        try:
            got = via_pool()
        except Exception as e:     # pylint: disable=broad-except
            return out.fail(f'opening indexed GVFs raised {type(e).__name__}: {e}',
                'open-idx-exc')
        if got != linear:
            return out.fail('record sets through .idx pointers differ from a linear scan',
                'pointer-idx')
    # edit-after-index history
    tampered = False
    for f, p in zip(case['files'], paths):
        if not f['idx'] or not f['tamper']:
            continue
        idx = Path(str(p) + '.idx')
        if f['tamper'] == 'append':
            with open(p, 'a') as h:
                h.write(body(p)[-1] + '\n')
        elif f['tamper'] == 'flip':
            txt = p.read_text()
            k = txt.rfind('\t.\t.\t')
            p.write_text(txt[:k] + '\t.\tPASS\t' + txt[k + 5:])
        else:
            idx.write_text(''.join(l for l in idx.read_text().splitlines(True)
                if 'CHECKSUM' not in l))
        if f.get('touch_idx'):
            # the .idx ends up the newer file (copied last, touched, extracted from an archive)
            st_ = os.stat(p)
            os.utime(idx, (st_.st_atime + 100, st_.st_mtime + 100))
        tampered = True
        try:
            via_pool()
        except ValueError:
            pass
        except Exception as e:     # pylint: disable=broad-except
            return out.fail(f'stale .idx: unexpected {type(e).__name__}: {e}', 'stale-idx-exc')
        else:
            return out.fail(f'an .idx that does not correspond to the GVF ({f["tamper"]}) '
                'was accepted', 'stale-idx-accepted')
        break
    multi_run = any(v >= 2 for v in runs.values()) or any(len(v) >= 2 for v in files_of.values())
    out.nontrivial = len(kinds) >= 2 and multi_run
    out.label(*[f'kind:{k}' for k in sorted(kinds)])
    if multi_run:
        out.label('tx_in_multiple_runs_or_files')
    if any_idx:
        out.label('idx')
    if any(f.get('meta_path') and not f['meta_path'].isascii() for f in case['files']):
        out.label('non_ascii_metadata')
    if tampered:
        out.label('stale_idx_rejected')
        if any(f.get('touch_idx') and f['idx'] and f['tamper'] for f in case['files']):
            out.label('stale_idx_newer_than_gvf')
    if any(r.get('twin') for f in case['files'] for r in f['records']):
        out.label('same_anchor_twin_records')
    out.label(f'files:{len(paths)}')
    return out
