""" C19 — filterFasta keeps exactly the entries satisfying its criteria. """
import io
import pickle
import argparse
import importlib
import contextlib
from hypothesis import strategies as st
from vf.harness import Outcome
from vf import refgen, vargen, drive, enz
from vf.model import Ref
from vf.dr import D
from vf.checks import c18

ID = 'C19'
LEVEL = 'exploration'
RULE = ('synthetic peptide FASTAs with multi-entry headers from the label grammar (transcript, '
    'fusion, circRNA / ciRNA, novel-ORF, alt-translation entries; splice-altering ids SE / RI / '
    'A5SS / A3SS / MXE) over a generated annotation x expression tables covering every '
    'transcript (values around the cutoff) x cutoff x keep-all-coding / keep-all-noncoding / '
    'keep-canonical x denylists drawn from the input x miscleavage ranges x enzymes; run '
    'through the CLI with --index-dir. Oracle: an independent predicate per entry, exactly as '
    'the statement spells it, gives the expected output (peptide kept iff an entry is kept, '
    'header = kept entries, sequence unchanged); filtering the output again changes nothing; '
    'a stricter cutoff or a narrower miscleavage range keeps a sub-collection. Non-trivial = '
    'an entry kept only through an exemption and an entry dropped by expression in the same '
    'run; distinct by canonical JSON')
ASSUMPTIONS = [
    'coding transcripts = transcripts with a proteome entry (coding_transcripts.pkl of the '
    'index directory)',
    'miscleavage count = cleavage sites inside the peptide by the independent enzyme model, '
    'with the trypsin exception for trypsin',
]
BUDGET = {'quick': 400, 'thorough': 15000}
AS_PREFIXES = ('SE', 'RI', 'A5SS', 'A3SS', 'MXE')


@contextlib.contextmanager
def quiet():
    with contextlib.redirect_stdout(io.StringIO()), contextlib.redirect_stderr(io.StringIO()):
        yield


@st.composite
def strategy_(draw, tier):
    d = D(draw)
    refd = refgen.gen_reference(d, n_genes=(2, 3), max_tx=2, p_nf=0.0, n_exons=(2, 3),
        p_coding=0.6)
    ref = Ref(refd)
    tids = list(ref.txs)
    records = []
    for tid in tids:
        records += vargen.gen_small(d, ref, tid, d.randint(1, 4), spread=40)
        if d.chance(0.6):
            records += vargen.gen_as(d, ref, tid, 1)
        if d.chance(0.4):
            c = vargen.gen_circ(d, ref, tid)
            if d.chance(0.3):
                c['id'] = 'CI-' + c['id'][len('CIRC-'):]
            records.append(c)
    for _ in range(d.randint(0, 2)):
        a, b = d.sample(tids, 2)
        f = vargen.gen_fusion(d, ref, a, b)
        if f:
            records.append(f)
    by_tx = {}
    for r in records:
        by_tx.setdefault(r['tx'], []).append(r)
    fusions = [r for r in records if r['kind'] == 'fusion']
    circs = [r for r in records if r['kind'] == 'circ']
    counters = {}
    peptides = []
    seqs = set()
    alphabet = c18.AA + 'KRKRDC'
    for _ in range(d.randint(6, 22)):
        s = d.letters(alphabet, d.randint(7, 20))
        if s in seqs:
            continue
        seqs.add(s)
        entries = []
        for _ in range(d.choice([1, 1, 2, 2, 3])):
            e = c18.gen_entry(d, ref, by_tx, fusions, circs, counters)
            if e not in entries:
                entries.append(e)
        peptides.append([s, entries])
    cutoff = d.choice([0.0, 1.0, 5.0, 10.0])
    exprs = {t: d.choice([0.0, cutoff, cutoff - 0.01, cutoff + 0.01, cutoff * 2 + 1, 0.5])
        for t in tids}
    use_exprs = d.chance(0.75)
    deny = [s for s, _ in peptides if d.chance(0.25)] if d.chance(0.5) else None
    if deny is not None and d.chance(0.5):
        deny.append('PEPTIDENOTININPUTK')
    rng = None
    if d.chance(0.5):
        lo = d.choice([None, 0, 1, 2])
        hi = d.choice([None, 0, 1, 2, 3])
        if lo is not None and hi is not None and hi < lo:
            lo, hi = hi, lo
        if lo is not None or hi is not None:
            rng = [lo, hi]
    opts = dict(use_exprs=use_exprs, cutoff=cutoff, exprs=exprs,
        keep_all_coding=d.chance(0.25), keep_all_noncoding=d.chance(0.25),
        keep_canonical=d.chance(0.4), denylist=deny, misc=rng,
        enzyme=d.choice(['trypsin', 'trypsin', 'lysc', 'arg-c', 'lysn', 'chymotrypsin high '
            'specificity', 'glutamyl endopeptidase']),
        header_cols=d.chance(0.5), skip_lines=d.choice([0, 0, 2]))
    return dict(ref=refd, peptides=peptides, opts=opts)


def strategy(tier):
    return strategy_(tier)


# ------------------------------------------------------------------ model
def entry_txs(entry):
    f = entry.split('|')
    bb = f[0]
    if bb.startswith('FUSION-'):
        _, a, b = bb.split('-')
        return 'fusion', [a.split(':')[0], b.split(':')[0]], f
    if bb.startswith(('CIRC-', 'CI-')):
        return 'circ', [bb.split('-', 2)[1]], f
    return 'base', [bb], f


def keep_entry(entry, o, coding, denied, exprs, cutoff):
    kind, txs, f = entry_txs(entry)
    is_canonical = kind != 'circ' and txs[0] in coding
    if denied and not (o['keep_canonical'] and is_canonical):
        return False, 'denylist'
    if o['keep_all_noncoding'] and not any(t in coding for t in txs):
        return True, 'keep_all_noncoding'
    if o['keep_all_coding'] and all(t in coding for t in txs):
        return True, 'keep_all_coding'
    if exprs is None:
        return True, 'no_exprs'
    if kind in ('fusion', 'circ'):
        return True, 'exempt:' + kind
    ids = f[1:-1] if f[-1].isdigit() else f[1:]
    if any(x.split('-')[0] in AS_PREFIXES for x in ids):
        return True, 'exempt:splice'
    if all(exprs[t] >= cutoff for t in txs):
        return True, 'expressed'
    return False, 'expression'


def model_filter(peptides, o, coding, cutoff=None, misc='same'):
    cutoff = o['cutoff'] if cutoff is None else cutoff
    rng = o['misc'] if misc == 'same' else misc
    exprs = o['exprs'] if o['use_exprs'] else None
    deny = set(o['denylist'] or [])
    out = []
    reasons = set()
    for s, entries in peptides:
        if rng:
            n = len(enz.sites(s, o['enzyme'], 'trypsin_exception' if o['enzyme'] == 'trypsin'
                else None))
            if rng[0] is not None and n < rng[0]:
                continue
            if rng[1] is not None and n > rng[1]:
                continue
        kept = []
        for e in entries:
            k, why = keep_entry(e, o, coding, s in deny and o['denylist'] is not None, exprs,
                cutoff)
            reasons.add(why)
            if k:
                kept.append(e)
        if kept:
            out.append([s, kept])
    return out, reasons


def run_filter(d, peptides, o, name, cutoff=None, misc='same'):
    fa = d/f'{name}.in.fasta'
    fa.write_text(''.join(f">{' '.join(e)}\n{s}\n" for s, e in peptides))
    rng = o['misc'] if misc == 'same' else misc
    a = argparse.Namespace(command='filterFasta', input_path=fa, output_path=d/f'{name}.fasta',
        denylist=(d/'deny.fasta') if o['denylist'] is not None else None,
        exprs_table=(d/'exprs.tsv') if o['use_exprs'] else None, skip_lines=o['skip_lines'],
        delimiter='\t', tx_id_col='tx' if o['header_cols'] else '1',
        quant_col='tpm' if o['header_cols'] else '3',
        quant_cutoff=o['cutoff'] if cutoff is None else cutoff,
        keep_all_coding=o['keep_all_coding'], keep_all_noncoding=o['keep_all_noncoding'],
        keep_canonical=o['keep_canonical'],
        miscleavages=None if not rng else
            f"{'' if rng[0] is None else rng[0]}:{'' if rng[1] is None else rng[1]}",
        enzyme=o['enzyme'], index_dir=d/'index', annotation_gtf=None, reference_source=None,
        quiet=True, debug_level=1)
    with quiet():
        importlib.import_module('moPepGen.cli.filter_fasta').filter_fasta(a)
    peps, dups = drive.read_fasta(d/f'{name}.fasta')
    return {s: h.split(' ') for s, h in peps.items()}, dups


def prop(case, ctx):
    # pylint: disable=too-many-locals,too-many-branches,too-many-return-statements
    out = Outcome()
    o = case['opts']
    ref = Ref(case['ref'])
    coding = set(ref.coding_txs())
    d = ctx.fresh_dir('c19')
    (d/'index').mkdir()
    with open(d/'index'/'coding_transcripts.pkl', 'wb') as fh:
        pickle.dump(coding, fh)
    lines = ['# comment'] * o['skip_lines']
    if o['header_cols']:
        lines.append('tx\tgene\ttpm')
    for t, v in o['exprs'].items():
        lines.append(f'{t}\tG\t{v}')
    (d/'exprs.tsv').write_text('\n'.join(lines) + '\n')
    if o['denylist'] is not None:
        (d/'deny.fasta').write_text(''.join(f'>d{i}\n{s}\n' for i, s in
            enumerate(o['denylist'])))
    peptides = case['peptides']
    if o['misc'] and (o['misc'][0] is None or o['misc'][1] is None):
        # an open-ended range: "[min]:[max]" with an empty bound is not accepted by the CLI
        # (int('') fails); only closed ranges are part of the domain
        o = dict(o, misc=[o['misc'][0] or 0, o['misc'][1] if o['misc'][1] is not None else 9])
    try:
        got, dups = run_filter(d, peptides, o, 'f1')
    except Exception as e:     # pylint: disable=broad-except
        return out.fail(f'filterFasta raised {type(e).__name__}: {e}', 'exc:' + type(e).__name__)
    exp, reasons = model_filter(peptides, o, coding)
    expd = {s: e for s, e in exp}
    if dups:
        return out.fail(f'sequence written twice: {dups[:2]}', 'dup')
    if set(got) != set(expd):
        extra = sorted(set(got) - set(expd))
        miss = sorted(set(expd) - set(got))
        inp = dict((s, e) for s, e in peptides)
        return out.fail(f'kept peptides differ from the stated rule: wrongly kept '
            f'{[(s, inp.get(s)) for s in extra[:2]]}, wrongly dropped '
            f'{[(s, inp.get(s)) for s in miss[:2]]} (options {dict(o, exprs="...")})',
            'peptide-set:' + ('kept' if extra else 'dropped'),
            detail=dict(extra=extra[:5], missing=miss[:5], exprs=o['exprs']))
    for s, e in got.items():
        if e != expd[s]:
            return out.fail(f'{s}: kept entries {e}, the stated rule keeps {expd[s]}',
                'entries', detail=dict(seq=s, exprs=o['exprs']))
    # idempotence
    got2, _ = run_filter(d, [[s, e] for s, e in got.items()], o, 'f2')
    if got2 != got:
        return out.fail('filtering the output again changed it', 'idempotence')
    # monotonicity: stricter cutoff / narrower range
    if o['use_exprs']:
        got3, _ = run_filter(d, peptides, o, 'f3', cutoff=o['cutoff'] + 0.5)
        for s, e in got3.items():
            if s not in got or any(x not in got[s] for x in e):
                return out.fail(f'a stricter cutoff kept {s} {e} which the laxer one dropped',
                    'monotone-cutoff')
    if o['misc']:
        lo, hi = o['misc']
        if hi > lo:
            got4, _ = run_filter(d, peptides, o, 'f4', misc=[lo, hi - 1])
            if not set(got4) <= set(got):
                return out.fail('a narrower miscleavage range kept more peptides',
                    'monotone-misc')
    out.nontrivial = 'expression' in reasons and any(r.startswith(('exempt', 'keep_all'))
        for r in reasons)
    for r in sorted(reasons):
        out.label('reason:' + r)
    if o['misc']:
        out.label('misc_range')
    if len(got) < len(peptides):
        out.label('some_dropped')
    return out
