""" C01 — callVariant completeness: every definitional variant peptide is reported;
collapse knobs never change the result. """
import os
from vf.harness import Outcome
from vf import cveval, refgen
from vf.model import Ref

ID = 'C01'
LEVEL = 'exploration'
RULE = ('generated references + GVF record sets of the families small (SNV/indel/MNV), '
    'multi-transcript, alternative splicing, fusion (also between two isoforms of one gene), '
    'circRNA (>= 30 nt), fusion + circRNA on one transcript (<=8 usable records per backbone; '
    'planted geometries: stop-codon records with read-through records, adjacent SNV pairs, '
    'look-behind cleavage gain, circRNA ORF round the loop with records on its start codon) '
    'x cleavage/limit/alt-translation options (W>F on every family); oracle: must-set L = definitional digest over '
    'all mutually compatible record subsets (vf.cvmodel) must be contained in the FASTA, and '
    'the FASTA sequence set must be identical for other node-collapsing parameters; '
    'non-trivial = L contains a peptide that needs >=2 records or a non-SNV record '
    '(frameshift, AS, fusion, circRNA); distinct by canonical JSON')
ASSUMPTIONS = [
    'model semantics M1-M12 of DESIGN.md (usable records, compatibility, start-codon '
    'normalisation, Sec ambiguity, fusion/circRNA families)',
    'strict domain: enzymes trypsin(+exception), lysc, arg-c, lysn, glutamyl endopeptidase; '
    'thorough adds the wild domain (all rules) where open findings are tolerated by signature',
    'complexity limits disabled (-1), i.e. not binding',
]
BUDGET = {'quick': 400, 'thorough': 2500}
KNOBS = [dict(min_nodes_to_collapse=a, naa_to_collapse=b) for a, b in
    ((5, 5), (10, 3), (5, 3), (8, 4), (4, 5), (30, 3))]
# aggressive settings (thorough tier only): open finding C01-collapse-knobs-aggressive
KNOBS_WILD = [dict(min_nodes_to_collapse=a, naa_to_collapse=b) for a, b in
    ((1, 1), (2, 2), (3, 2), (2, 3), (1, 5))]
FAMILIES = ['small', 'small', 'small', 'multi', 'as', 'fusion', 'circ', 'fuscirc']


def strategy(tier):
    from hypothesis import strategies as st
    # strict domain: zero tolerance
    strict = cveval.strategy_for(FAMILIES, ref_kw=dict(utr_styles=('gencode', 'gencode', 'ensembl')))
    if tier == 'quick' or os.environ.get('VERIF_STRICT_ONLY'):
        return strict
    # wild domain: every rule, exception settings and UTR style; discrepancies are
    # tolerated only with the signature of an open finding
    wild = cveval.strategy_for(FAMILIES, enzymes=cveval.ALL_ENZYMES,
        exceptions=(None, None, 'auto', 'trypsin_exception'),
        ref_kw=dict(utr_styles=('gencode', 'gencode', 'ensembl')))
    return st.one_of(strict, wild)


def crowded(case, window=25):
    """ input-side signature of C01-rare-tail: some transcript carries >= 3 small records
    within `window` nt of one another, at least one of them an indel or MNV, or a circRNA of
    fewer than 30 nt is present """
    if any(r['kind'] == 'circ' and sum(b - a for a, b in r['frags']) < 30
            for r in case['records']):
        return True
    by_tx = {}
    for r in case['records']:
        if r['kind'] == 'small':
            by_tx.setdefault(r['tx'], []).append(r)
    for recs in by_tx.values():
        recs = sorted(recs, key=lambda r: r['g'])
        for i in range(len(recs) - 2):
            grp = [r for r in recs[i:] if r['g'] - recs[i]['g'] <= window]
            if len(grp) >= 3 and any(len(r['ref']) != 1 or len(r['alt']) != 1 for r in grp):
                return True
    return False


def lost_without_crowding(case, peptides, ctx, opts=None):
    """ the rare tail is interference inside a dense cluster: a peptide that one or two
    records demand is reported when only those records are supplied, and lost when the others
    crowd around them. Returns the peptides that are demanded by one or two small records of a
    transcript (all other record kinds kept) and that the tool does NOT report for that reduced
    input either: those are not part of the tail """
    import itertools
    peptides = set(peptides)
    still_lost = set()
    decided = set()
    small = [r for r in case['records'] if r['kind'] == 'small']
    rest = [r for r in case['records'] if r['kind'] != 'small']
    by_tx = {}
    for r in small:
        by_tx.setdefault(r['tx'], []).append(r)
    for recs in by_tx.values():
        combos = [(r,) for r in recs] + list(itertools.combinations(recs, 2))
        for combo in combos:
            if decided == peptides:
                return still_lost
            sub = dict(case, records=rest + list(combo))
            try:
                demanded = (peptides - decided) & cveval.bounds(sub)['L']
            except OverflowError:
                continue
            if not demanded:
                continue
            try:
                got = set(cveval.run_tool(sub, ctx, opts, name='reduced')['peps'])
            except Exception:     # pylint: disable=broad-except
                got = set()
            still_lost |= demanded - got
            decided |= demanded
    return still_lost


def tolerated(case, out, bucket):
    """ open findings (known_findings.json) by signature """
    if bucket.startswith('crash:ValueError@svgraph/ThreeFrameTVG.py:expand_alignments') \
            and any(r['kind'] == 'fusion' for r in case['records']):
        return 'C01-fusion-expand-alignments-crash'
    if bucket.startswith('knobs-changed:'):
        a, b = bucket.split(':')[1].split(',')
        if int(a) <= 3 or int(b) <= 2:
            return 'C01-collapse-knobs-aggressive'
    dom = cveval.known_domain_findings(case)
    if dom and (bucket.startswith('missing:') or bucket.startswith('knobs-changed')
            or bucket.startswith('crash:')):
        return dom[0]
    if (bucket.startswith('missing:') or bucket.startswith('knobs-changed')) and \
            not case.get('planted') and crowded(case):
        # rate-capped: the harness turns more than max_hits_per_run of these into a violation
        return 'C01-rare-tail'
    return None


def prop(case, ctx):
    out = Outcome()
    out.label('family:' + case['family'], 'rule:' + case['opts']['rule'])
    if case.get('planted'):
        out.label('planted:' + case['planted'])
    if not case['records']:
        return out.label('no_records')
    try:
        res = cveval.run_tool(case, ctx)
    except Exception as e:     # pylint: disable=broad-except
        if 'Failed to finish transcript' in str(e):
            out.inconclusive = 'tool_timeout'      # wall-clock give-up, never a violation
            return out
        k = tolerated(case, out, cveval.crash_bucket(e))
        if k:
            out.known.append(k)
            return out
        return out.fail(f'callVariant raised {type(e).__name__}: {e}', cveval.crash_bucket(e))
    try:
        b = cveval.bounds(case)
    except OverflowError:
        out.inconclusive = 'too_many_records'
        return out
    got = set(res['peps'])
    missing = b['L'] - got
    k = tolerated(case, out, 'missing:') if missing else None
    if k == 'C01-rare-tail' and lost_without_crowding(case, missing, ctx):
        k = None        # lost even when the crowding records are taken away: not the tail
    if k:
        out.known.append(k)
        out.detail = dict(missing=sorted(missing)[:6])
        missing = set()
    if missing:
        return out.fail(f'{len(missing)} definitional variant peptide(s) missing from the '
            f'FASTA, e.g. {sorted(missing)[:4]} (reported {len(got)}, must-set {len(b["L"])})',
            'missing:' + case['opts']['rule'], detail=dict(missing=sorted(missing)[:10]))
    # collapse knobs never change the result
    knobs = case.get('knobs')
    if knobs is None:
        pool = KNOBS if ctx.tier == 'quick' else KNOBS + KNOBS_WILD
        knobs = pool[(len(got) + len(case['records'])) % len(pool)]
        case['knobs'] = knobs      # recorded so that a replay uses the same setting
    out.label('knobs:%d,%d' % (knobs['min_nodes_to_collapse'], knobs['naa_to_collapse']))
    if got or b['L']:
        try:
            res2 = cveval.run_tool(case, ctx, dict(case['opts'], **knobs), name='knobs')
        except Exception as e:     # pylint: disable=broad-except
            k = tolerated(case, out, cveval.crash_bucket(e))
            if k:
                out.known.append(k)
                return out
            return out.fail(f'callVariant with {knobs} raised {type(e).__name__}: {e}',
                cveval.crash_bucket(e) + ':knobs')
        kb = 'knobs-changed:%d,%d' % (knobs['min_nodes_to_collapse'], knobs['naa_to_collapse'])
        k = tolerated(case, out, kb) if set(res2['peps']) != got else None
        if k == 'C01-rare-tail' and lost_without_crowding(case, got - set(res2['peps']), ctx,
                dict(case['opts'], **knobs)):
            k = None
        if k:
            out.known.append(k)
            out.detail = dict(knobs=knobs, changed=sorted(set(res2['peps']) ^ got)[:6])
        elif set(res2['peps']) != got:
            diff = sorted(set(res2['peps']) ^ got)[:4]
            return out.fail(f'node-collapsing parameters {knobs} changed the result: {diff}',
                'knobs-changed:%d,%d' % (knobs['min_nodes_to_collapse'],
                    knobs['naa_to_collapse']))
    out.nontrivial = bool(b['multi'])
    if b['L']:
        out.label('L_nonempty')
    if got:
        out.label('output_nonempty')
    out.label(*[x for x in refgen.describe(case['ref']) if x.startswith(('strand', 'tx:'))])
    if case['opts'].get('sect'):
        out.label('opt:sect')
    if case['opts'].get('w2f'):
        out.label('opt:w2f')
    if case['opts'].get('coding_novel_orf'):
        out.label('opt:coding_novel_orf')
    return out
