""" C02 — callVariant soundness: every reported sequence is realizable; complexity limits,
collapsing parameters and timeout-driven retries only remove peptides. """
import os
from hypothesis import strategies as st
from vf.harness import Outcome
from vf.model import Ref
from vf import cveval, refgen, drive
from vf.dr import D

ID = 'C02'
LEVEL = 'exploration'
RULE = ('generated references + GVF record sets (families small, multi-transcript, AS, fusion '
    'incl. intragenic, circRNA, fusion + circRNA on one transcript; planted geometries as in '
    'C01, plus a trypsin exception motif in untouched reference sequence between two SNV '
    'bubbles, where a cut at the planted site has no tolerance) x cleavage options x binding graph-complexity limits (max-variants-per-node '
    '1..7, additional-variants-per-misc 0..2, multi-valued lists) x node-collapsing settings '
    '(incl. aggressive ones) x injected TimeoutErrors that drive the retry ladder; oracle: '
    'every FASTA sequence lies in the liberal may-set U of the definitional model for a '
    'backbone, for every run; limited / retried runs are subsets of the unlimited run; '
    'non-trivial = output non-empty and (a limit was binding, i.e. the limited output differs, '
    'or a retry happened, or two records lie within 6 nt); distinct by canonical JSON')
ASSUMPTIONS = [
    'may-set U: any non-overlapping record subset (adjacent allowed), both readings of '
    'ambiguous Sec codons, any ATG where novel ORFs are permitted, Met-removed / SECT / W2F '
    'forms, circRNA products anywhere in four loop copies',
    'the retry ladder is driven by injected TimeoutErrors (first k invocations of the '
    'per-transcript worker), not by genuinely slow inputs; threads=1',
]
BUDGET = {'quick': 110, 'thorough': 2000}
FAMILIES = ['small', 'small', 'small', 'multi', 'as', 'fusion', 'circ', 'fuscirc']
KNOBS = [(30, 5), (5, 5), (10, 3), (5, 3), (2, 3), (3, 2), (1, 1), (2, 2), (8, 4), (3, 3),
    (2, 5), (1, 3), (3, 1), (4, 2)]


@st.composite
def strategy_(draw, tier):
    d = D(draw)
    fam = d.choice(FAMILIES)
    enzymes = cveval.STRICT_ENZYMES if tier == 'quick' or d.chance(0.5) else cveval.ALL_ENZYMES
    if fam == 'small' and d.chance(0.2):
        planted = plant_exception(d)
        if planted:
            return planted
    dense = fam in ('small', 'multi') and d.chance(0.5)
    case = cveval.gen_case(d, family=fam, enzymes=enzymes,
        n_small=(5, 11) if dense else (2, 6), spread=d.randint(4, 10) if dense else 12,
        exceptions=(None, None, 'auto', 'trypsin_exception'),
        ref_kw=dict(utr_styles=('gencode', 'gencode', 'ensembl')))
    case['dense'] = dense
    a, b = d.choice(KNOBS)
    case['limits'] = dict(
        max_variants_per_node=d.choice([[1], [2], [3], [5], [7], [3, 1], [7, 3, 1]]),
        additional_variants_per_misc=d.choice([[0], [1], [2], [2, 0], [1, 0]]),
        min_nodes_to_collapse=a, naa_to_collapse=b)
    case['timeouts'] = d.choice([0, 0, 1, 2, 3])
    return case


def plant_exception(d):
    """ trypsin with its cleavage exception and an exception motif in reference sequence
    between two variant bubbles (cveval.plant_exception_between_sites); the unchanged tree is
    clean on this geometry, so these cases are judged without the CV-trypsin-exception
    tolerance """
    refd = refgen.gen_reference(d, n_genes=(1, 1), max_tx=1, p_nf=0.0, p_sec=0.0,
        p_coding=1.0, n_exons=(1, 2), exon_len=(120, 170),
        utr_styles=('gencode', 'gencode', 'ensembl'))
    tid = list(Ref(refd).txs)[0]
    planted = None
    for _ in range(4):
        planted = planted or cveval.plant_exception_between_sites(d, refd, tid)
    if not planted:
        return None
    refd, records, window = planted
    opts = cveval.gen_opts(d, ['trypsin'], alt=False, limits=True,
        exceptions=('auto', 'trypsin_exception'))
    opts.update(miscleavage=d.choice([1, 2, 2, 3]), min_length=d.choice([5, 7]),
        max_length=d.choice([25, 30]))
    case = dict(family='small', ref=refd, records=records, opts=opts,
        planted='exception_between_sites', dense=False, window=window)
    case['limits'] = dict(max_variants_per_node=[7], additional_variants_per_misc=[2],
        min_nodes_to_collapse=30, naa_to_collapse=5)
    case['timeouts'] = d.choice([0, 0, 1])
    return case


def strategy(tier):
    return strategy_(tier)


class TimeoutInjector:
    """ make the first k invocations of the per-transcript worker raise TimeoutError """
    def __init__(self, k):
        self.k = k
        self.raised = 0
        self.mod = drive.mod('call_variant_peptide')
        self.orig = self.mod.call_variant_peptides_wrapper

    def __enter__(self):
        def wrapper(*args, **kwargs):
            if self.raised < self.k:
                self.raised += 1
                raise TimeoutError('injected')
            return self.orig(*args, **kwargs)
        self.mod.call_variant_peptides_wrapper = wrapper
        return self

    def __exit__(self, *exc):
        self.mod.call_variant_peptides_wrapper = self.orig


def unsound(case, res, out, dom=()):
    bad, n_fallback, inconclusive = cveval.check_sound_fast(case, res)
    if n_fallback:
        out.label('fallback_enumeration')
    if inconclusive:
        out.inconclusive = 'too_many_records_for_fallback'
    if bad and not dom:
        # rare circRNA defects (rate-capped open finding), by structural signature; inputs in
        # the domain of another open finding (pepsin, ...) are classified there
        ref = Ref(case['ref'])
        circs = {r['id']: r for r in case['records'] if r['kind'] == 'circ'}
        rest = []
        for seq, hdr in bad:
            sig = None
            for e in cveval.parse_header(hdr):
                if e['backbone'] in circs:
                    sig = sig or cveval.circ_rare_signature(case, ref, circs[e['backbone']], seq)
            if sig:
                out.known.append('CV-circ-copy-inconsistency')
                out.detail = dict(signature=sig, seq=seq, header=hdr)
            elif any(cveval.crowded_truncation_signature(case, ref, e['backbone'], seq)
                    for e in cveval.parse_header(hdr)):
                out.known.append('CV-crowded-truncated-product')
                out.detail = dict(seq=seq, header=hdr)
            else:
                rest.append((seq, hdr))
        bad = rest
    return bad


def planted_site_cut(case, bad):
    """ unrealizable peptides that end or start at the planted exception site of an
    'exception_between_sites' case. The 19 residues around it are reference sequence that no
    record touches, so the CV-trypsin-exception tolerance (variant peptides around exception
    sites) does not cover them: the unchanged tree never cuts there (0 of 2,500 planted
    inputs at calibration). """
    if case.get('planted') != 'exception_between_sites':
        return []
    w = case['window']
    return [(seq, hdr) for seq, hdr in bad if seq.endswith(w[3:8]) or seq.startswith(w[8:13])]


def prop(case, ctx):
    # pylint: disable=too-many-return-statements,too-many-branches
    out = Outcome()
    out.label('family:' + case['family'], 'rule:' + case['opts']['rule'])
    if case.get('planted'):
        out.label('planted:' + case['planted'])
    if not case['records']:
        return out.label('no_records')
    dom = cveval.known_domain_findings(case)
    try:
        res0 = cveval.run_tool(case, ctx)
    except Exception as e:     # pylint: disable=broad-except
        if 'Failed to finish transcript' in str(e):
            out.inconclusive = 'tool_timeout'      # wall-clock give-up, never a violation
            return out
        bucket = cveval.crash_bucket(e)
        if any(r['kind'] == 'fusion' for r in case['records']) and 'expand_alignments' in bucket:
            out.known.append('C01-fusion-expand-alignments-crash')
            return out
        if dom:
            out.known.append(dom[0])
            return out
        return out.fail(f'callVariant raised {type(e).__name__}: {e}', bucket)
    bad = unsound(case, res0, out, dom)
    if bad and planted_site_cut(case, bad):
        return out.fail(f'cut at the planted exception site: {planted_site_cut(case, bad)[:3]}',
            'unsound:planted-exception-site', detail=dict(bad=bad[:10]))
    if bad and dom:
        out.known.append(dom[0])
        return out
    if bad:
        return out.fail(f'unrealizable peptide(s) reported: {bad[:3]}', 'unsound:unlimited',
            detail=dict(bad=bad[:10]))
    got0 = set(res0['peps'])
    lim = case['limits']
    opts1 = dict(case['opts'], **lim)
    retried = False
    try:
        with TimeoutInjector(case['timeouts']) as inj:
            res1 = cveval.run_tool(case, ctx, opts1, name='limited')
            retried = inj.raised > 0
    except ValueError as e:
        if 'Failed to finish transcript' in str(e):
            # the ladder ran out of settings: documented give-up, not a soundness issue
            out.label('ladder_exhausted')
            out.nontrivial = bool(got0)
            return out
        return out.fail(f'limited run raised ValueError: {e}', cveval.crash_bucket(e) + ':limited')
    except Exception as e:     # pylint: disable=broad-except
        bucket = cveval.crash_bucket(e)
        if any(r['kind'] == 'fusion' for r in case['records']) and 'expand_alignments' in bucket:
            out.known.append('C01-fusion-expand-alignments-crash')
            return out
        if dom:
            out.known.append(dom[0])
            return out
        return out.fail(f'limited run raised {type(e).__name__}: {e}', bucket + ':limited')
    bad = unsound(case, res1, out, dom)
    if bad and planted_site_cut(case, bad):
        return out.fail('cut at the planted exception site (limited run): '
            f'{planted_site_cut(case, bad)[:3]}', 'unsound:planted-exception-site',
            detail=dict(bad=bad[:10]))
    aggressive = lim['naa_to_collapse'] <= 1 and not os.environ.get('VERIF_NO_AGGR')
    if bad and (dom or aggressive):
        out.known.append(dom[0] if dom else 'C01-collapse-knobs-aggressive')
        return out
    if bad:
        return out.fail(f'unrealizable peptide(s) with limits {lim} '
            f'(timeouts={case["timeouts"]}): {bad[:3]}', 'unsound:limited:%d,%d' % (
                lim['min_nodes_to_collapse'], lim['naa_to_collapse']),
            detail=dict(bad=bad[:10]))
    got1 = set(res1['peps'])
    default_knobs = (lim['min_nodes_to_collapse'], lim['naa_to_collapse']) == (30, 5)
    if default_knobs and not got1 <= got0:
        return out.fail(f'complexity limits {lim} (timeouts={case["timeouts"]}) invented '
            f'peptides absent from the unlimited run: {sorted(got1 - got0)[:4]}',
            'limits-invent')
    binding = got1 != got0
    close = False
    gs = sorted(r['g'] for r in case['records'] if r['kind'] == 'small')
    close = any(y - x <= 6 for x, y in zip(gs, gs[1:]))
    out.nontrivial = bool(got0) and (binding or retried or close)
    if binding:
        out.label('limit_binding')
    if retried:
        out.label('retried:%d' % case['timeouts'])
    if close:
        out.label('records_within_6nt')
    out.label('knobs:%d,%d' % (lim['min_nodes_to_collapse'], lim['naa_to_collapse']))
    if case.get('dense'):
        out.label('dense_cluster')
    return out
