""" C12 — index directory: each parameter set maps to its own, faithful data.
Histories of generateIndex / updateIndex / load / metadata tampering against a dictionary
model. A case is a JSON operation list, interpreted step by step (stateful, model based);
all histories up to a bounded length over a small operation alphabet are enumerated. """
import json
import hashlib
import itertools
import argparse
from pathlib import Path
from hypothesis import strategies as st
from vf.harness import Outcome
from vf import refgen, drive, enz, cvmodel as M
from vf.model import Ref, write_reference
from vf.dr import D

ID = 'C12'
LEVEL = 'exploration'
RULE = ('operation histories on one index directory over a generated reference: '
    'generateIndex(p[, --force]), updateIndex(p[, --force]), load(p) (the loader every command '
    'uses), tamper(version field) on metadata.json; p from an alphabet of 7 cleavage-parameter '
    'sets that differ in one field each (two of them denote the same parameters: exception '
    '"auto" and "trypsin_exception" for trypsin). Dictionary model params -> pool with the pool '
    'computed by the independent digest model; after EVERY step every registered parameter set '
    'is loaded and compared with the model (so adding a pool never changes another), absent '
    'sets must be refused, duplicates without --force must exit 1 and leave every file of the '
    'directory byte-identical, genome / proteome / coding-transcript / annotation data must '
    'load back equal to the written reference, and a directory whose recorded python / '
    'biopython version differs or whose moPepGen version is below 1.3.0 must be rejected by '
    'load and updateIndex. Histories of length <= 3 (quick) / <= 4 (thorough) over a reduced '
    'alphabet are enumerated exhaustively, longer ones (<= 9 steps) are generated. '
    'Non-trivial = >= 2 distinct parameter sets registered and a load after the last write; '
    'states = distinct (model state, step) pairs visited; distinct by canonical JSON')
ASSUMPTIONS = [
    'pool oracle: vf.enz digest (validated by C10) with the exception resolved as documented',
    'one small generated reference per history (1-2 genes); data fidelity is compared on '
    'sequences, protein sequences, transcript ids and the coding-transcript set',
]
BUDGET = {'quick': 120, 'thorough': 2000}
EXHAUSTIVE = {'quick': True, 'thorough': True}
EXHAUSTIVE_NOTE = {
    'quick': 'all histories of length <= 3 over {gen(P0), gen(P1,force), upd(P0), upd(P1), '
        'upd(P1,force), upd(P2,force), load(P1), tamper(mopepgen=1.2.9)} after an initial gen(P0)',
    'thorough': 'all histories of length <= 4 over the same alphabet'}

PARAMS = [
    dict(rule='trypsin', exception=None, miscleavage=2, min_mw=500., min_length=7, max_length=25),
    dict(rule='trypsin', exception=None, miscleavage=1, min_mw=500., min_length=7, max_length=25),
    dict(rule='trypsin', exception=None, miscleavage=2, min_mw=500., min_length=6, max_length=25),
    dict(rule='lysc', exception=None, miscleavage=2, min_mw=500., min_length=7, max_length=25),
    dict(rule='trypsin', exception=None, miscleavage=2, min_mw=0., min_length=7, max_length=25),
    dict(rule='trypsin', exception='auto', miscleavage=2, min_mw=500., min_length=7,
        max_length=25),
    dict(rule='trypsin', exception='trypsin_exception', miscleavage=2, min_mw=500.,
        min_length=7, max_length=25),
    dict(rule='trypsin', exception=None, miscleavage=2, min_mw=500., min_length=7, max_length=24),
]
TAMPERS = [('mopepgen', '1.2.9', False), ('mopepgen', '0.11.3', False),
    ('mopepgen', '1.3.0', True), ('mopepgen', '1.4.0-rc1', True), ('python', '2.7.18', False),
    ('biopython', '1.70', False)]


def key_of(p):
    return json.dumps(dict(p, exception=enz.resolve_exception(p['rule'], p['exception'])),
        sort_keys=True)


@st.composite
def strategy_(draw, tier):
    d = D(draw)
    refd = refgen.gen_reference(d, n_genes=(1, 2), max_tx=2, p_coding=0.9, p_nf=0.25)
    # 5'-incomplete proteins are written with a leading X in real proteome files
    ref0 = Ref(refd)
    for g in refd['genes']:
        for t in g['txs']:
            if t.get('cds') and 'cds_start_NF' in t.get('tags', []) and d.chance(0.7):
                t['protein'] = 'X' * d.randint(1, 2) + ref0.protein(t['id'])
            elif t.get('cds') and d.chance(0.2) and len(ref0.protein(t['id'])) >= 6:
                # a proteome entry with an internal '*': stays coding unless
                # --invalid-protein-as-noncoding is given; its pool is the digest up to '*'
                t['stop_in_protein'] = d.randint(2, len(ref0.protein(t['id'])) - 2)
    ops = [['gen', d.randint(0, len(PARAMS) - 1), False]]
    for _ in range(d.randint(2, 8)):
        r = d.rng.random()
        if r < 0.12:
            ops.append(['gen', d.randint(0, len(PARAMS) - 1), d.chance(0.7)])
        elif r < 0.6:
            ops.append(['upd', d.randint(0, len(PARAMS) - 1), d.chance(0.35)])
        elif r < 0.88:
            ops.append(['load', d.randint(0, len(PARAMS) - 1)])
        else:
            ops.append(['tamper', d.randint(0, len(TAMPERS) - 1)])
    if d.chance(0.7):
        ops.append(['load', d.randint(0, len(PARAMS) - 1)])
    return dict(ref=refd, ops=ops)


def strategy(tier):
    return strategy_(tier)


_EXH_REF = None


def exhaustive(tier):
    """ all histories up to length n over a reduced alphabet, on one fixed reference """
    import random
    global _EXH_REF     # pylint: disable=global-statement
    if _EXH_REF is None:
        class _D:
            def __init__(self):
                self.rng = random.Random(12345)
            def randint(self, a, b):
                return self.rng.randint(a, max(a, b))
            def choice(self, x):
                return self.rng.choice(list(x))
            def chance(self, p):
                return self.rng.random() < p
            def bases(self, n):
                return ''.join(self.rng.choices('ACGT', k=n))
        _EXH_REF = refgen.gen_reference(_D(), n_genes=(2, 2), max_tx=1, p_coding=1.0, p_nf=0.0,
            exon_len=(40, 70))
    alphabet = [['gen', 0, False], ['gen', 1, True], ['upd', 0, False], ['upd', 1, False],
        ['upd', 1, True], ['upd', 2, True], ['load', 1], ['tamper', 0]]
    n = 3 if tier == 'quick' else 4
    for k in range(1, n + 1):
        for hist in itertools.product(alphabet, repeat=k):
            yield dict(ref=_EXH_REF, ops=[['gen', 0, False]] + [list(x) for x in hist])


def snapshot(d:Path):
    out = {}
    if not d.exists():
        return out
    for f in sorted(d.iterdir()):
        if f.is_file():
            out[f.name] = hashlib.md5(f.read_bytes()).hexdigest()
    return out


def load(d, idx, p):
    """ the loader of the calling commands; returns (genome, anno, proteome, pool) """
    from moPepGen import params
    from moPepGen.cli import common
    cp = params.CleavageParams(enzyme=p['rule'], exception=p['exception'],
        miscleavage=p['miscleavage'], min_mw=p['min_mw'], min_length=p['min_length'],
        max_length=p['max_length'])
    a = argparse.Namespace(index_dir=idx, genome_fasta=None, annotation_gtf=None,
        proteome_fasta=None, reference_source=None)
    with drive.quiet():
        return common.load_references(a, load_proteome=True, cleavage_params=cp)


def prop(case, ctx):
    # pylint: disable=too-many-locals,too-many-branches,too-many-statements,too-many-return-statements
    out = Outcome()
    ref = Ref(case['ref'])
    d = ctx.fresh_dir('c12')
    write_reference(ref, d)
    idx = d/'index'
    model = {}          # key -> params (registered pools)
    created = False
    version_ok = True
    pools = {}
    states = set()
    n_loads_after_write = 0
    last_write = -1
    n_transitions = 0

    def expected_pool(p):
        k = key_of(p)
        if k not in pools:
            pr = M.params_of(p)
            pools[k] = (M.canonical(ref, pr, strict=True), M.canonical(ref, pr, strict=False))
        return pools[k]

    def check_all(step):
        """ every registered set loads its own pool; data load back equal """
        for k, p in model.items():
            try:
                genome, anno, proteome, pool = load(d, idx, p)
            except BaseException as e:     # pylint: disable=broad-except
                return f'step {step}: loading registered parameters {k} raised ' \
                    f'{type(e).__name__}: {e}'
            lo, hi = expected_pool(p)
            pool = {str(x) for x in pool}
            if not lo <= pool <= hi:
                return (f'step {step}: pool loaded for {k} is not the digest for these '
                    f'parameters: {len(lo - pool)} missing e.g. {sorted(lo - pool)[:3]}, '
                    f'{len(pool - hi)} foreign e.g. {sorted(pool - hi)[:3]}')
            for ch, s in ref.chroms.items():
                if str(genome[ch].seq) != s:
                    return f'step {step}: genome sequence {ch} differs from what was saved'
            exp = {tid: seq for _, tid, _, _, seq, _ in ref.proteome_entries()}
            got = {tid: str(rec.seq) for tid, rec in proteome.items()}
            if exp != got:
                return f'step {step}: proteome differs from what was saved'
            if set(anno.transcripts.keys()) != set(ref.txs) and ref.coding_txs():
                return f'step {step}: annotation transcripts differ from what was saved'
            from moPepGen.index import IndexDir
            coding = IndexDir(idx).load_coding_tx()
            if set(coding) != set(ref.coding_txs()):
                return f'step {step}: coding transcript set {sorted(coding)} != ' \
                    f'{sorted(ref.coding_txs())}'
        return None

    for step, op in enumerate(case['ops']):
        kind = op[0]
        n_transitions += 1
        before = snapshot(idx)
        if kind in ('gen', 'upd'):
            p = PARAMS[op[1]]
            force = op[2]
            k = key_of(p)
            fn = (lambda: drive.generate_index(d, idx, p, force=force)) if kind == 'gen' else \
                (lambda: drive.update_index(idx, p, force=force))
            if kind == 'gen':
                expect = 'reject' if (created and not force) else 'ok'
            else:
                if not created:
                    continue
                if not version_ok:
                    expect = 'invalid'
                elif k in model and not force:
                    expect = 'reject'
                else:
                    expect = 'ok'
            try:
                fn()
                res = 'ok'
            except SystemExit as e:
                res = 'reject' if e.code == 1 else f'exit{e.code}'
            except Exception as e:     # pylint: disable=broad-except
                res = 'invalid' if type(e).__name__ == 'InvalidIndexError' else \
                    f'exc:{type(e).__name__}: {e}'
            if res != expect:
                return out.fail(f'step {step} {op}: expected {expect}, got {res} '
                    f'(registered: {len(model)}, version ok: {version_ok})',
                    f'{kind}:{expect}->{res.split(":")[0]}')
            if res in ('reject', 'invalid'):
                if snapshot(idx) != before:
                    return out.fail(f'step {step} {op}: the refused operation changed the '
                        'directory', 'refused-op-changed-dir')
            else:
                if kind == 'gen':
                    model = {k: p}
                    created = True
                    version_ok = True
                else:
                    model[k] = p
                last_write = step
        elif kind == 'load':
            if not created:
                continue
            p = PARAMS[op[1]]
            k = key_of(p)
            expect = 'invalid' if not version_ok else ('ok' if k in model else 'absent')
            try:
                _, _, _, pool = load(d, idx, p)
                res = 'ok'
            except Exception as e:     # pylint: disable=broad-except
                res = 'invalid' if type(e).__name__ == 'InvalidIndexError' else \
                    ('absent' if isinstance(e, ValueError) and 'No canonical peptide pool' in
                    str(e) else f'exc:{type(e).__name__}: {e}')
            if res != expect:
                return out.fail(f'step {step} {op}: load expected {expect}, got {res}',
                    f'load:{expect}->{res.split(":")[0]}')
            if res == 'ok':
                lo, hi = expected_pool(p)
                pool = {str(x) for x in pool}
                if not lo <= pool <= hi:
                    return out.fail(f'step {step} {op}: loaded pool is not the digest for the '
                        f'requested parameters ({len(lo - pool)} missing, {len(pool - hi)} '
                        'foreign)', 'load-wrong-pool')
                if last_write >= 0:
                    n_loads_after_write += 1
        elif kind == 'tamper':
            if not created:
                continue
            field, value, ok = TAMPERS[op[1]]
            mf = idx/'metadata.json'
            data = json.loads(mf.read_text())
            data['version'][field] = value
            mf.write_text(json.dumps(data, indent=2))
            # validity is judged on the whole recorded version
            import sys
            import Bio
            v = data['version']
            semver = tuple(int(x) for x in v['mopepgen'].split('-')[0].split('.'))
            version_ok = v['python'] == '.'.join(str(x) for x in sys.version_info[:3]) and \
                v['biopython'] == Bio.__version__ and semver >= (1, 3, 0)
        if created and version_ok:
            msg = check_all(step)
            if msg:
                return out.fail(msg + f' (after {op})', 'registered-pool-not-faithful')
        states.add((tuple(sorted(model)), version_ok, created))
    out.nontrivial = len(model) >= 2 and n_loads_after_write >= 1
    out.label(f'pools:{min(len(model), 4)}', f'ops:{len(case["ops"])}')
    if not version_ok:
        out.label('ends_invalid_version')
    out.detail = dict(states=len(states), transitions=n_transitions)
    return out
