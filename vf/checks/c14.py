""" C14 — parseVEP / parseREDItools preserve the genomic event. """
import io
import argparse
import importlib
import contextlib
from hypothesis import strategies as st
from vf.harness import Outcome
from vf import refgen, drive
from vf.model import Ref, write_reference, rc
from vf.dr import D

ID = 'C14'
LEVEL = 'exploration'
RULE = ('generated references (1-3 genes, both strands, multi-exon, multi-isoform) x genomic '
    'events written as VEP rows for a transcript of the gene: SNV, deletion (1-8 nt), '
    'insertion (1-6 nt) in the three VEP conventions (flanking range; single position with '
    'the inserted bases before / after the reference base), substitution of 3-7 nt; positions '
    'drawn over the whole transcript span incl. its first / last bases, exon edges, introns, '
    'and beyond the transcript. Oracle: for events lying inside the transcript span (2 nt '
    'away from its ends) exactly one GVF record is emitted, REF equals the gene sequence at '
    'POS, and applying (POS, REF, ALT) to the gene sequence gives the gene re-extracted from '
    'the chromosome carrying the event; events reaching beyond the transcript must give no '
    'record (tallied as failed), events on its very ends either. parseREDItools: rows with '
    'base counts / frequencies / WGS coverage straddling each threshold, annotated with every '
    'transcript whose span holds the site; expected record set = (site exonic in transcript) x '
    '(substitution passes the documented thresholds), POS = gene coordinate of the site. '
    'Non-trivial = minus-strand gene or indel / substitution or an event within 2 nt of an '
    'exon edge; distinct by canonical JSON')
ASSUMPTIONS = [
    'VEP alleles are given on the forward genomic strand; insertion conventions as the parser '
    'documents them',
    'REDItools threshold semantics re-implemented from the option help texts',
]
BUDGET = {'quick': 1500, 'thorough': 30000}


@contextlib.contextmanager
def quiet():
    with contextlib.redirect_stdout(io.StringIO()), contextlib.redirect_stderr(io.StringIO()):
        yield


def mod(name):
    return importlib.import_module(f'moPepGen.cli.{name}')


@st.composite
def strategy_(draw, tier):
    d = D(draw)
    refd = refgen.gen_reference(d, n_genes=(1, 3), max_tx=d.choice([1, 2, 3]), p_nf=0.1,
        n_exons=(1, 4), intron_len=(3, 25))
    ref = Ref(refd)
    events = []
    used = set()
    for _ in range(d.randint(2, 10)):
        tid = d.choice(list(ref.txs))
        g = ref.gene_of(tid)
        t = ref.tx(tid)
        ch = ref.chroms[g['chrom']]
        t0, t1 = t['exons'][0][0], t['exons'][-1][1]
        r = d.rng.random()
        if r < 0.3:
            edges = [x for a, b in t['exons'] for x in (a, b - 1, a - 1, b, a + 1, b - 2)]
            p = d.choice(edges + [t0, t1 - 1, t0 + 1, t1 - 2, t0 - 1, t1])
        elif r < 0.4:
            p = d.choice([t0 - 2, t0 - 1, t0, t1 - 1, t1, t1 + 1, g['start'], g['end'] - 1])
        else:
            p = d.randint(t0, t1 - 1)
        p = max(g['start'], min(g['end'] - 1, p))
        kind = d.choice(['snv', 'snv', 'del', 'del', 'ins', 'ins', 'ins', 'sub'])
        if kind == 'snv':
            a, b = p, p + 1
            alt = d.choice([x for x in 'ACGT' if x != ch[p]])
            loc = f"{g['chrom']}:{p + 1}"
            allele = alt
        elif kind == 'del':
            k = d.randint(1, 8)
            a, b = p, min(g['end'], p + k)
            alt = ''
            loc = f"{g['chrom']}:{a + 1}-{b}" if b - a > 1 else f"{g['chrom']}:{a + 1}"
            allele = '-'
        elif kind == 'sub':
            k = d.randint(3, 7)
            a, b = p, min(g['end'], p + k)
            if b - a < 3:
                continue
            alt = d.letters('ACGT', d.randint(2, 7))
            if alt == ch[a:b]:
                continue
            loc = f"{g['chrom']}:{a + 1}-{b}"
            allele = alt
        else:
            # insertion of X between genomic p and p+1
            if p + 1 >= g['end']:
                continue
            x = d.letters('ACGT', d.randint(1, 6))
            a, b = p + 1, p + 1
            alt = x
            conv = d.choice(['range', 'before', 'after'])
            if conv == 'range':
                loc = f"{g['chrom']}:{p + 1}-{p + 2}"
                allele = x
            elif conv == 'before':
                # reference base before the insertion + inserted bases
                loc = f"{g['chrom']}:{p + 1}"
                allele = ch[p] + x
            else:
                loc = f"{g['chrom']}:{p + 2}"
                allele = x + ch[p + 1]
            if len(allele) < 2:
                continue
        if (tid, loc) in used:
            continue
        used.add((tid, loc))
        span = [a - 1, a + 1] if kind == 'ins' else [a, b]
        # an insertion lies beyond the transcript only if neither flanking base belongs to it
        e_out = None
        if kind == 'ins':
            e_out = [a, a]
        events.append(dict(tx=tid, kind=kind, a=a, b=b, alt=alt, loc=loc, allele=allele,
            span=span, out_span=e_out or span))
    # REDItools sites
    sites = []
    opts = dict(min_coverage_alt=d.choice([1, 3, 5]), min_frequency_alt=d.choice([0.1, 0.25, 0.5]),
        min_coverage_rna=d.choice([5, 10, 20]), min_coverage_dna=d.choice([-1, 10, 10, 20]))
    seen = set()
    for _ in range(d.randint(2, 8)):
        g = d.choice(refd['genes'])
        t = d.choice(g['txs'])
        edges = [x for a, b in t['exons'] for x in (a, b - 1, a - 1, b)]
        p = d.choice(edges) if d.chance(0.4) else d.randint(g['start'], g['end'] - 1)
        p = max(g['start'], min(g['end'] - 1, p))
        if (g['chrom'], p) in seen:
            continue
        seen.add((g['chrom'], p))
        refb = ref.chroms[g['chrom']][p]
        alts = d.sample([x for x in 'ACGT' if x != refb], d.choice([1, 1, 2]))
        total = d.choice([opts['min_coverage_rna'] - 1, opts['min_coverage_rna'],
            opts['min_coverage_rna'] + 1, 40, 100])
        counts = dict.fromkeys('ACGT', 0)
        left = total
        for al in alts:
            c = d.choice([opts['min_coverage_alt'] - 1, opts['min_coverage_alt'],
                opts['min_coverage_alt'] + 1, int(total * opts['min_frequency_alt']),
                int(total * opts['min_frequency_alt']) + 1, max(0, int(total *
                opts['min_frequency_alt']) - 1)])
            c = max(0, min(left, c))
            counts[al] = c
            left -= c
        counts[refb] = left
        gcov = d.choice([opts['min_coverage_dna'] - 1, opts['min_coverage_dna'],
            opts['min_coverage_dna'] + 1, 30, '-']) if opts['min_coverage_dna'] > 0 else \
            d.choice([0, 5, 30, '-'])
        sites.append(dict(chrom=g['chrom'], p=p, ref=refb, alts=alts,
            counts=[counts[x] for x in 'ACGT'], gcov=gcov, sep=d.choice([',', '&', '$'])))
    return dict(ref=refd, events=events, sites=sites, opts=opts)


def strategy(tier):
    return strategy_(tier)


def parse_gvf(path):
    out = []
    if not path.exists():
        return out
    for line in open(path):
        if line.startswith('#'):
            continue
        f = line.rstrip('\n').split('\t')
        attrs = dict(x.split('=', 1) for x in f[7].split(';') if '=' in x)
        out.append(dict(gene=f[0], pos=int(f[1]) - 1, id=f[2], ref=f[3], alt=f[4], attrs=attrs))
    return out


def ref_ns(d):
    return dict(index_dir=None, genome_fasta=d/'genome.fasta', annotation_gtf=d/'anno.gtf',
        proteome_fasta=d/'proteome.fasta', reference_source=None,
        invalid_protein_as_noncoding=False, quiet=True, debug_level=1)


def prop(case, ctx):
    # pylint: disable=too-many-locals,too-many-branches,too-many-statements,too-many-return-statements
    out = Outcome()
    ref = Ref(case['ref'])
    d = ctx.fresh_dir('c14')
    write_reference(ref, d)
    nontrivial = False
    # ------------------------------------------------ VEP
    if case['events']:
        rows = ['#Uploaded_variation\tLocation\tAllele\tGene\tFeature\tFeature_type\t'
            'Consequence\tcDNA_position\tCDS_position\tProtein_position\tAmino_acids\tCodons\t'
            'Existing_variation\tExtra']
        for i, e in enumerate(case['events']):
            g = ref.gene_of(e['tx'])
            rows.append(f"v{i}\t{e['loc']}\t{e['allele']}\t{g['id']}\t{e['tx']}\tTranscript\t"
                f"missense_variant\t1\t1\t1\tA/B\tgcc/gTc\t-\tIMPACT=MODERATE;STRAND=1")
        (d/'vep.txt').write_text('\n'.join(rows) + '\n')
        a = argparse.Namespace(command='parseVEP', input_path=[d/'vep.txt'],
            output_path=d/'vep.gvf', source='gSNP', skip_failed=False, **ref_ns(d))
        try:
            with quiet():
                mod('parse_vep').parse_vep(a)
        except Exception as e:     # pylint: disable=broad-except
            return out.fail(f'parseVEP raised {type(e).__name__}: {e} on rows '
                f'{[(x["loc"], x["allele"]) for x in case["events"]]}',
                'vep-exc:' + type(e).__name__)
        recs = parse_gvf(d/'vep.gvf')
        by_key = {}
        for r in recs:
            by_key.setdefault((r['attrs'].get('TRANSCRIPT_ID'), r['attrs'].get(
                'GENOMIC_POSITION')), []).append(r)
        for e in case['events']:
            g = ref.gene_of(e['tx'])
            t = ref.tx(e['tx'])
            t0, t1 = t['exons'][0][0], t['exons'][-1][1]
            got = by_key.get((e['tx'], e['loc']), [])
            lo, hi = e['span']
            inside = lo >= t0 + 2 and hi <= t1 - 2
            olo, ohi = e.get('out_span', e['span'])
            outside = olo < t0 or ohi > t1
            desc = f"{e['kind']} {e['loc']} allele {e['allele']} on {e['tx']} (strand " \
                f"{g['strand']}, transcript span {t0 + 1}-{t1})"
            if outside and got:
                return out.fail(f'{desc}: reaches beyond the transcript but a record was '
                    f'emitted: {got[0]["id"]}', 'vep-boundary-not-rejected')
            if inside and len(got) != 1:
                return out.fail(f'{desc}: {len(got)} records emitted, expected 1',
                    'vep-record-count')
            for r in got:
                if r['gene'] != g['id']:
                    return out.fail(f'{desc}: record on gene {r["gene"]}', 'vep-gene')
                gseq = ref.gene_seq(g['id'])
                if gseq[r['pos']:r['pos'] + len(r['ref'])] != r['ref']:
                    return out.fail(f'{desc}: REF {r["ref"]} at POS {r["pos"] + 1} is not the '
                        f'gene sequence {gseq[r["pos"]:r["pos"] + len(r["ref"])]}', 'vep-ref')
                ch = ref.chroms[g['chrom']]
                mut = ch[:e['a']] + e['alt'] + ch[e['b']:]
                delta = len(e['alt']) - (e['b'] - e['a'])
                gmut = mut[g['start']:g['end'] + delta]
                if g['strand'] == -1:
                    gmut = rc(gmut)
                applied = gseq[:r['pos']] + r['alt'] + gseq[r['pos'] + len(r['ref']):]
                if applied != gmut:
                    return out.fail(f'{desc}: applying {r["id"]} (POS {r["pos"] + 1} '
                        f'{r["ref"]}>{r["alt"]}) to the gene does not reproduce the genomic '
                        'event', 'vep-event:' + e['kind'] + (':minus' if g['strand'] == -1
                            else ':plus'))
            if got:
                edge = any(abs(x - y) <= 2 for x in (lo, hi) for a2, b2 in t['exons']
                    for y in (a2, b2))
                if g['strand'] == -1 or e['kind'] != 'snv' or edge:
                    nontrivial = True
                out.label('vep:' + e['kind'])
            elif not inside:
                out.label('vep:rejected_at_boundary')
    # ------------------------------------------------ REDItools
    if case['sites']:
        o = case['opts']
        hdr = ('Region\tPosition\tReference\tStrand\tCoverage-q30\tMeanQ\tBaseCount[A,C,G,T]\t'
            'AllSubs\tFrequency\tgCoverage-q\tgMeanQ\tgBaseCount[A,C,G,T]\tgAllSubs\tgFrequency\t'
            'gencode_feat\tgencode_gid\tgencode_tid')
        rows = [hdr]
        expected = set()
        for s in case['sites']:
            txs = [(tid, g) for tid, (g, t) in ref.txs.items() if g['chrom'] == s['chrom']
                and t['exons'][0][0] <= s['p'] < t['exons'][-1][1]]
            if not txs:
                continue
            total = sum(s['counts'])
            subs = ' '.join(s['ref'] + al for al in s['alts'])
            freq = max(s['counts']['ACGT'.index(al)] for al in s['alts']) / total if total \
                else 0
            tids = s['sep'].join(f'{tid}-transcript' for tid, _ in txs)
            gids = s['sep'].join(g['id'] for _, g in txs)
            rows.append(f"{s['chrom']}\t{s['p'] + 1}\t{s['ref']}\t0\t{total}\t40.0\t"
                f"[{', '.join(str(x) for x in s['counts'])}]\t{subs}\t{freq:.2f}\t{s['gcov']}\t"
                f"30.0\t-\t-\t-\t{s['sep'].join('transcript' for _ in txs)}\t{gids}\t{tids}")
            ok_site = total >= o['min_coverage_rna']
            if o['min_coverage_dna'] != -1:
                ok_site = ok_site and s['gcov'] != '-' and s['gcov'] >= o['min_coverage_dna']
            for tid, g in txs:
                if s['p'] not in ref.tx_genomic(tid):
                    continue
                for al in s['alts']:
                    c = s['counts']['ACGT'.index(al)]
                    if ok_site and c >= o['min_coverage_alt'] and total and \
                            c / total >= o['min_frequency_alt']:
                        expected.add((g['id'], tid, ref.gene_index(g['id'], s['p']), s['ref'],
                            al))
        if len(rows) > 1:
            (d/'red.txt').write_text('\n'.join(rows) + '\n')
            a = argparse.Namespace(command='parseREDItools', input_path=d/'red.txt',
                output_path=d/'red.gvf', source='RNAEditing', transcript_id_column=17,
                min_coverage_alt=o['min_coverage_alt'], min_frequency_alt=o['min_frequency_alt'],
                min_coverage_rna=o['min_coverage_rna'], min_coverage_dna=o['min_coverage_dna'],
                **ref_ns(d))
            try:
                with quiet():
                    mod('parse_reditools').parse_reditools(a)
            except Exception as e:     # pylint: disable=broad-except
                return out.fail(f'parseREDItools raised {type(e).__name__}: {e}',
                    'red-exc:' + type(e).__name__)
            got = {(r['gene'], r['attrs'].get('TRANSCRIPT_ID'), r['pos'], r['ref'], r['alt'])
                for r in parse_gvf(d/'red.gvf')}
            if got != expected:
                return out.fail(f'parseREDItools records differ from the expected set: missing '
                    f'{sorted(expected - got)[:3]}, unexpected {sorted(got - expected)[:3]} '
                    f'(thresholds {o})', 'red-records:' + ('missing' if expected - got
                        else 'unexpected'), detail=dict(sites=case['sites']))
            if expected:
                out.label('red:records')
                if any(ref.genes[x[0]]['strand'] == -1 for x in expected):
                    nontrivial = True
    out.nontrivial = nontrivial
    return out
