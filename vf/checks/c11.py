""" C11 — reference model: coordinates and sequences are mutually consistent;
on-disk annotation equals the fully parsed one; GTF write/parse round trip. """
import io
from pathlib import Path
from hypothesis import strategies as st
from vf.harness import Outcome
from vf.dr import D
from vf import refgen
from vf.model import Ref, write_reference, STOPS

ID = 'C11'
LEVEL = 'exploration'
RULE = ('generated annotations (1-3 genes, 1-3 isoforms, both strands, CDS/UTR/Sec/NF tags, '
    'GENCODE- and ENSEMBL-style UTR features, feature order within a transcript permuted); '
    'every gene, transcript and genomic position of each annotation is checked exhaustively, '
    'plus a generated access sequence over the cached pointer dictionaries; non-trivial = a '
    'minus-strand multi-exon coding transcript is present and the access sequence causes >=1 '
    'cache eviction followed by a re-load; distinct by canonical JSON')
ASSUMPTIONS = [
    'coordinates/sequences are compared with explicit index arrays built from the exon lists '
    '(vf.model), independent of moPepGen',
    'pointer cache size is reduced (module constants) in part of the cases so that evictions '
    'occur with few transcripts',
]
BUDGET = {'quick': 250, 'thorough': 6000}


@st.composite
def strategy_(draw, tier):
    d = D(draw)
    ref = refgen.gen_reference(d, n_genes=(1, 3), max_tx=3, n_exons=(1, 4),
        utr_styles=('gencode', 'gencode', 'ensembl', 'none'))
    tx_ids = [t['id'] for g in ref['genes'] for t in g['txs']]
    gene_ids = [g['id'] for g in ref['genes']]
    access = []
    for _ in range(d.randint(4, 24)):
        if d.chance(0.3):
            access.append(['g', d.choice(gene_ids)])
        else:
            access.append(['t', d.choice(tx_ids)])
    return dict(ref=ref, order=d.choice(['asis', 'reverse', 'bytype', 'rotate']),
        cache=d.choice([1, 2, 3, 10]), access=access, via=d.choice(['generate', 'load_index']))


def strategy(tier):
    return strategy_(tier)


def reorder(kind):
    if kind == 'asis':
        return None
    if kind == 'reverse':
        return lambda ls: ls[::-1]
    if kind == 'bytype':
        return lambda ls: sorted(ls, key=lambda l: (l.split('\t')[2], l))
    return lambda ls: ls[len(ls) // 2:] + ls[:len(ls) // 2]


def feat(f):
    return (int(f.location.start), int(f.location.end), f.location.strand, f.frame)


def tx_summary(m):
    return dict(tid=m.transcript.transcript_id, gid=m.transcript.gene_id,
        loc=feat(m.transcript), exon=[feat(x) for x in m.exon], cds=[feat(x) for x in m.cds],
        utr=sorted(feat(x) for x in m.utr), five=sorted(feat(x) for x in m.five_utr),
        three=sorted(feat(x) for x in m.three_utr),
        sec=[feat(x) for x in m.selenocysteine],
        tags=sorted(m.transcript.attributes.get('tag', [])),
        pid=m.transcript.attributes.get('protein_id'),
        biotype=m.transcript.attributes.get('gene_type'),
        name=m.transcript.attributes.get('gene_name'))


def gene_summary(g):
    return dict(gid=g.gene_id, loc=feat(g), txs=sorted(g.transcripts),
        biotype=g.attributes.get('gene_type'), name=g.attributes.get('gene_name'),
        chrom=g.chrom)


def expected_tx_summary(ref, g, t):
    """ what the GTF we wrote says, computed from the model """
    from vf.model import _segments, cds_segments
    idx = ref.tx_genomic(t['id'])
    ex = t['exons']
    strand = g['strand']
    out = dict(tid=t['id'], gid=g['id'], loc=(ex[0][0], ex[-1][1], strand, None),
        exon=[(a, b, strand, None) for a, b in ex], cds=[], utr=[], five=[], three=[], sec=[],
        tags=sorted(t.get('tags', [])), pid=t['pid'] if t.get('cds') else None,
        biotype=g['biotype'], name=g['name'])
    if t.get('cds'):
        s, e = t['cds']
        fr = t.get('cds_frame') or 0
        out['cds'] = [(a, b, strand, f) for a, b, f in cds_segments(ref, g, t)]
        out['sec'] = sorted((min(idx[c:c + 3]), max(idx[c:c + 3]) + 1, strand, None)
            for c in t.get('secs', []))
        utr = t.get('utr', 'gencode')
        if utr != 'none':
            five = [(a, b, strand, None) for a, b in _segments(sorted(idx[:s - fr]), ex)]
            three = [(a, b, strand, None) for a, b in
                _segments(sorted(idx[e + (0 if utr == 'gencode' else 3):]), ex)]
            out['five'] = sorted(five)
            out['three'] = sorted(three)
            if utr == 'gencode':
                out['utr'] = sorted(five + three)
    return out


def expected_orf(ref, t):
    """ ORF the transcript sequence must carry, from the CDS / UTR features """
    if not t.get('cds'):
        return None
    n = len(ref.tx_genomic(t['id']))
    s, e = t['cds']
    utr = t.get('utr', 'gencode')
    has_three = utr != 'none' and (e + (0 if utr == 'gencode' else 3)) < n
    if has_three:
        # the CDS features end where the stop codon starts, whatever the UTR convention
        end = e - (e - s) % 3
    else:
        end = n - (n - s) % 3
    return (s, end)


def prop(case, ctx):
    # pylint: disable=too-many-locals,too-many-branches,too-many-statements
    from moPepGen import gtf, dna
    from moPepGen.gtf import GTFPointer, GtfIO
    from moPepGen.index import IndexDir
    out = Outcome()
    ref = Ref(case['ref'])
    d = ctx.fresh_dir()
    write_reference(ref, d, reorder(case['order']))
    gtf_path = d/'anno.gtf'
    old = (GTFPointer.GENE_DICT_CACHE_SIZE, GTFPointer.TX_DICT_CACHE_SIZE)
    GTFPointer.GENE_DICT_CACHE_SIZE = GTFPointer.TX_DICT_CACHE_SIZE = case['cache']
    try:
        try:
            full = gtf.GenomicAnnotation()
            full.dump_gtf(str(gtf_path))
        except Exception as e:     # pylint: disable=broad-except
            return out.fail(f'dump_gtf raised {type(e).__name__}: {e}', 'dump_gtf-exc')
        genome = dna.DNASeqDict()
        genome.dump_fasta(str(d/'genome.fasta'))
        if case['via'] == 'generate':
            disk = gtf.GenomicAnnotationOnDisk()
            disk.generate_index(gtf_path)
        else:
            idir = d/'index'
            idir.mkdir()
            ix = IndexDir(idir)
            ix.save_annotation(gtf_path, source=None, proteome=None, symlink=False)
            ix.metadata.source = 'GENCODE'
            disk = ix.load_annotation()

        # ---- (ii) parsed models equal what was written; sequences, ORF, Sec
        for g in ref.data['genes']:
            gm = full.genes[g['id']]
            exp_g = dict(gid=g['id'], loc=(g['start'], g['end'], g['strand'], None),
                txs=sorted(t['id'] for t in g['txs']), biotype=g['biotype'], name=g['name'],
                chrom=g['chrom'])
            if gene_summary(gm) != exp_g:
                return out.fail(f'parsed gene model differs: {gene_summary(gm)} != {exp_g}',
                    'gene-model')
            gseq = str(gm.get_gene_sequence(genome[g['chrom']]).seq)
            if gseq != ref.gene_seq(g['id']):
                return out.fail(f'gene sequence of {g["id"]} differs from the genome',
                    'gene-seq')
            for t in g['txs']:
                tm = full.transcripts[t['id']]
                exp_t = expected_tx_summary(ref, g, t)
                got_t = tx_summary(tm)
                if got_t != exp_t:
                    diff = {k: (got_t[k], exp_t[k]) for k in exp_t if got_t[k] != exp_t[k]}
                    return out.fail(f'parsed transcript model {t["id"]} differs: {diff}',
                        'tx-model:' + ','.join(sorted(diff)))
                tseq = tm.get_transcript_sequence(genome[g['chrom']])
                if str(tseq.seq) != ref.tx_seq(t['id']):
                    return out.fail(f'transcript sequence of {t["id"]} differs', 'tx-seq')
                eo = expected_orf(ref, t)
                go = (int(tseq.orf.start), int(tseq.orf.end)) if tseq.orf else None
                if go != eo:
                    return out.fail(f'ORF of {t["id"]}: {go} != expected {eo} '
                        f'(utr style {t.get("utr")}, tags {t.get("tags")})', 'orf')
                gs = [(int(x.start), int(x.end)) for x in tseq.selenocysteine]
                es = [(c, c + 3) for c in t.get('secs', [])]
                if gs != es:
                    return out.fail(f'Sec positions of {t["id"]}: {gs} != {es}', 'sec')
                if t.get('cds') and not t.get('cds_frame') and 'cds_start_NF' not in t['tags']:
                    if str(tseq.seq[go[0]:go[0] + 3]) != 'ATG':
                        return out.fail('annotated ORF does not start with ATG', 'orf-atg')

        # ---- (i) coordinates, exhaustively per annotation
        for anno, name in ((full, 'full'), (disk, 'disk')):
            for g in ref.data['genes']:
                gid = g['id']
                glen = g['end'] - g['start']
                for gi in range(glen):
                    gen = anno.coordinate_gene_to_genomic(gi, gid)
                    if gen != ref.gene_to_genomic(gid, gi):
                        return out.fail(f'{name}: gene->genomic({gi}) = {gen}', 'gene2genomic')
                    if anno.coordinate_genomic_to_gene(gen, gid) != gi:
                        return out.fail(f'{name}: genomic->gene not inverse at {gi}',
                            'genomic2gene')
                for t in g['txs']:
                    tid = t['id']
                    idx = ref.tx_genomic(tid)
                    tgene = ref.tx_gene(tid)
                    exonic = {p: i for i, p in enumerate(idx)}
                    tm = anno.transcripts[tid]
                    for ti, gen in enumerate(idx):
                        try:
                            v = anno.coordinate_transcript_to_genomic(ti, tid)
                        except Exception as e:     # pylint: disable=broad-except
                            return out.fail(f'{name}: tx->genomic({ti}) raised {e}',
                                'tx2genomic-exc')
                        if v != gen:
                            return out.fail(f'{name}: tx->genomic({ti}) = {v} != {gen}',
                                'tx2genomic')
                        try:
                            w = tm.get_transcript_index(gen)
                        except Exception as e:     # pylint: disable=broad-except
                            return out.fail(f'{name}: genomic->tx({gen}) raised {e}',
                                'genomic2tx-exc')
                        if w != ti:
                            return out.fail(f'{name}: genomic->tx({gen}) = {w} != {ti}',
                                'genomic2tx')
                    lo, hi = t['exons'][0][0], t['exons'][-1][1]
                    for gen in range(max(0, lo - 2), hi + 2):
                        if gen in exonic:
                            continue
                        try:
                            w = tm.get_transcript_index(gen)
                        except ValueError:
                            continue
                        return out.fail(f'{name}: intronic/outside genomic position {gen} of '
                            f'{tid} mapped to transcript index {w}', 'intron-mapped')
                    for ti in (len(idx) + 1, len(idx) + 5):
                        try:
                            v = anno.coordinate_transcript_to_genomic(ti, tid)
                        except ValueError:
                            continue
                        return out.fail(f'{name}: out-of-range transcript index {ti} mapped '
                            f'to {v}', 'oob-mapped')
                    for gi in range(glen):
                        gen = ref.gene_to_genomic(gid, gi)
                        try:
                            ti = anno.coordinate_gene_to_transcript(gi, gid, tid)
                        except ValueError:
                            if gen in exonic:
                                return out.fail(f'{name}: exonic gene position {gi} rejected',
                                    'exonic-rejected')
                            continue
                        if gen not in exonic:
                            return out.fail(f'{name}: intronic gene position {gi} of {tid} '
                                f'mapped to {ti}', 'intron-mapped-gene')
                        if tgene[ti] != gi:
                            return out.fail(f'{name}: gene->tx({gi}) = {ti}', 'gene2tx')

        # ---- (iii) on-disk annotation == full annotation for any access sequence
        seen_t, seen_g = [], []
        evicted_reload = False
        for kind, key in case['access']:
            if kind == 't':
                a = tx_summary(disk.transcripts[key])
                b = tx_summary(full.transcripts[key])
                if key in seen_t and key not in seen_t[-case['cache']:]:
                    evicted_reload = True
                if key in seen_t:
                    seen_t.remove(key)
                seen_t.append(key)
            else:
                a = gene_summary(disk.genes[key])
                b = gene_summary(full.genes[key])
                if key in seen_g and key not in seen_g[-case['cache']:]:
                    evicted_reload = True
                if key in seen_g:
                    seen_g.remove(key)
                seen_g.append(key)
            if a != b:
                diff = {k: (a[k], b[k]) for k in b if a[k] != b[k]}
                return out.fail(f'on-disk model of {key} differs from the parsed one after '
                    f'{len(seen_t) + len(seen_g)} accesses: {diff}', 'ondisk-model')
        if set(disk.transcripts.keys()) != set(full.transcripts.keys()) or \
                set(disk.genes.keys()) != set(full.genes.keys()):
            return out.fail('on-disk key sets differ', 'ondisk-keys')

        # ---- (iv) GtfIO.write -> dump_gtf preserves all models
        buf = io.StringIO()
        GtfIO.write(buf, full)
        (d/'rt.gtf').write_text(buf.getvalue())
        try:
            again = gtf.GenomicAnnotation()
            again.dump_gtf(str(d/'rt.gtf'))
        except Exception as e:     # pylint: disable=broad-except
            return out.fail(f'parsing the written GTF raised {type(e).__name__}: {e}',
                'rt-exc')
        for g in ref.data['genes']:
            if gene_summary(again.genes[g['id']]) != gene_summary(full.genes[g['id']]):
                return out.fail('gene model changed by GTF write/parse', 'rt-gene')
            for t in g['txs']:
                a = tx_summary(again.transcripts[t['id']])
                b = tx_summary(full.transcripts[t['id']])
                if a != b:
                    diff = {k: (a[k], b[k]) for k in b if a[k] != b[k]}
                    return out.fail(f'transcript model {t["id"]} changed by GTF write/parse: '
                        f'{diff}', 'rt-tx:' + ','.join(sorted(diff)))
                a_seq = again.transcripts[t['id']].get_transcript_sequence(genome[g['chrom']])
                b_seq = full.transcripts[t['id']].get_transcript_sequence(genome[g['chrom']])
                if str(a_seq.seq) != str(b_seq.seq) or \
                        (a_seq.orf is None) != (b_seq.orf is None) or \
                        (a_seq.orf is not None and (int(a_seq.orf.start), int(a_seq.orf.end))
                            != (int(b_seq.orf.start), int(b_seq.orf.end))):
                    return out.fail('transcript sequence/ORF changed by GTF write/parse',
                        'rt-seq')
    finally:
        GTFPointer.GENE_DICT_CACHE_SIZE, GTFPointer.TX_DICT_CACHE_SIZE = old
        for a in ('disk',):
            obj = locals().get(a)
            if obj is not None and getattr(obj, 'handle', None):
                obj.handle.close()
                obj.handle = None

    minus_multi = any(g['strand'] == -1 and len(t['exons']) > 1 and t.get('cds')
        for g in ref.data['genes'] for t in g['txs'])
    out.nontrivial = bool(minus_multi and evicted_reload)
    out.label(*refgen.describe(case['ref']))
    out.label('order:' + case['order'], 'via:' + case['via'])
    if evicted_reload:
        out.label('cache_eviction_and_reload')
    for g in ref.data['genes']:
        for t in g['txs']:
            if t.get('cds'):
                out.label('utr:' + t.get('utr', 'gencode'))
    return out
