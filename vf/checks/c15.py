""" C15 — fusion parsers (STAR-Fusion, FusionCatcher, Arriba) yield the fusion transcript the
breakpoints define; callVariant's fusion peptides are digestion products of it. """
import io
import re
import argparse
import importlib
import contextlib
from hypothesis import strategies as st
from vf.harness import Outcome
from vf import refgen, drive, cveval, cvmodel as M
from vf.model import Ref, write_reference, rc
from vf.dr import D

ID = 'C15'
LEVEL = 'exploration'
RULE = ('generated references (2-3 genes on 1-2 chromosomes, all strand combinations, '
    'multi-isoform genes) x 1-4 fusion rows in one of the three tool formats: breakpoints '
    'exonic, intronic, at exon edges, outside some isoforms; evidence fields around each '
    'threshold; rows naming unknown genes; Arriba rows on the antisense strand. Oracle: '
    '(i) exactly one record per eligible donor x acceptor transcript pair (transcript span '
    'holds the breakpoint) of each accepted row and none for the others; each record, read '
    'with the documented GVF semantics (donor transcript up to the breakpoint + retained '
    'intronic bases + acceptor transcript from its breakpoint), denotes exactly the sequence '
    'built directly from the row\'s genomic breakpoints and the genome; (ii) the parser\'s GVF '
    'is fed to callVariant: every definitional junction-spanning peptide is reported and '
    'every peptide labelled with a fusion id is a digestion product of that fusion sequence; '
    '(iii) skipped rows are tallied by reason; (iv) a STAR-Fusion row on a contig that the '
    'genome does not hold ends the command with an error, and with --skip-failed it is '
    'skipped while the other rows are converted. Non-trivial = an intronic breakpoint, a '
    'minus-strand partner or >= 2 eligible pairs; distinct by canonical JSON')
ASSUMPTIONS = [
    'all three formats give the last retained donor base and the first retained acceptor base '
    '(1-based genomic), as the parsers document',
    'fusion peptide oracle: vf.cvmodel fusion family (M10), strict rule domain',
]
BUDGET = {'quick': 600, 'thorough': 12000}
CONF = ['low', 'medium', 'high']


@contextlib.contextmanager
def quiet():
    with contextlib.redirect_stdout(io.StringIO()), contextlib.redirect_stderr(io.StringIO()):
        yield


def mod(name):
    return importlib.import_module(f'moPepGen.cli.{name}')


@st.composite
def strategy_(draw, tier):
    d = D(draw)
    refd = refgen.gen_reference(d, n_genes=(2, 3), max_tx=d.choice([1, 2, 3]), p_nf=0.0,
        n_exons=(1, 4), intron_len=(3, 25), utr_styles=('gencode',))
    fmt = d.choice(['star', 'catcher', 'arriba'])
    genes = refd['genes']
    rows = []
    if fmt == 'star':
        th = dict(min_est_j=d.choice([1.0, 5.0, 5.0]))
    elif fmt == 'catcher':
        th = dict(max_common_mapping=d.choice([0, 0, 2]), min_spanning_unique=d.choice([3, 5]))
    else:
        th = dict(min_split_read1=d.choice([1, 3]), min_split_read2=d.choice([1, 3]),
            min_confidence=d.choice(CONF))
    for _ in range(d.randint(1, 4)):
        g1, g2 = d.sample(genes, 2) if d.chance(0.9) else (d.choice(genes),) * 2

        def pick(g):
            t = d.choice(g['txs'])
            r = d.rng.random()
            if r < 0.55:
                a, b = d.choice(t['exons'])
                return d.randint(a, b - 1)
            if r < 0.75:
                return d.choice([x for a, b in t['exons'] for x in (a, b - 1, a - 1, b)])
            return d.randint(g['start'], g['end'] - 1)
        lp = max(g1['start'], min(g1['end'] - 1, pick(g1)))
        rp = max(g2['start'], min(g2['end'] - 1, pick(g2)))
        if any((x['g1'], x['g2'], x['lp'], x['rp']) == (g1['id'], g2['id'], lp, rp)
                for x in rows):
            continue      # a tool reports a breakpoint pair once
        row = dict(g1=g1['id'], g2=g2['id'], lp=lp, rp=rp, unknown=d.chance(0.1),
            nochrom=d.chance(0.08) and fmt == 'star')
        if fmt == 'star':
            row['est_j'] = d.choice([th['min_est_j'] - 0.5, th['min_est_j'], th['min_est_j'] + 3])
        elif fmt == 'catcher':
            row['common'] = d.choice([0, 0, th['max_common_mapping'], th['max_common_mapping']
                + 1])
            row['unique'] = d.choice([th['min_spanning_unique'] - 1, th['min_spanning_unique'],
                th['min_spanning_unique'] + 4])
            row['versioned'] = d.chance(0.5)
        else:
            row['sr1'] = d.choice([th['min_split_read1'] - 1, th['min_split_read1'], 9])
            row['sr2'] = d.choice([th['min_split_read2'] - 1, th['min_split_read2'], 9])
            row['conf'] = d.choice(CONF)
            row['antisense'] = d.chance(0.12)
        rows.append(row)
    opts = cveval.gen_opts(d, cveval.STRICT_ENZYMES, alt=False, limits=False)
    return dict(ref=refd, fmt=fmt, rows=rows, th=th, opts=opts)


def strategy(tier):
    return strategy_(tier)


def accepted(fmt, row, th):
    if fmt == 'star':
        return row['est_j'] >= th['min_est_j']
    if fmt == 'catcher':
        return row['common'] <= th['max_common_mapping'] and \
            row['unique'] >= th['min_spanning_unique']
    return row['sr1'] >= th['min_split_read1'] and row['sr2'] >= th['min_split_read2'] and \
        CONF.index(row['conf']) >= CONF.index(th['min_confidence'])


def write_rows(ref, case, path):
    fmt = case['fmt']
    lines = []
    for r in case['rows']:
        g1, g2 = ref.genes[r['g1']], ref.genes[r['g2']]
        id1 = 'ENSG00000099999.1' if r['unknown'] else g1['id']
        # a breakpoint on a contig that the genome FASTA does not hold (unplaced scaffold,
        # chr-prefix mismatch): the row cannot be converted (STAR-Fusion rows only: the other
        # two parsers take the chromosome from the gene model)
        chrom1 = 'chrUn_KI270742v1' if r.get('nochrom') else g1['chrom']
        s1 = '+' if g1['strand'] == 1 else '-'
        s2 = '+' if g2['strand'] == 1 else '-'
        if fmt == 'star':
            lines.append('\t'.join([f"{g1['name']}--{g2['name']}", '4', '5', f"{r['est_j']:.2f}",
                '3.86', 'ONLY_REF_SPLICE', f"{g1['name']}^{id1}",
                f"{chrom1}:{r['lp'] + 1}:{s1}", f"{g2['name']}^{g2['id']}",
                f"{g2['chrom']}:{r['rp'] + 1}:{s2}", 'r1,r2', 'f1,f2', 'YES_LDAS', '0.1045',
                'GT', '1.9086', 'AG', '1.7232', '["INTRACHROMOSOMAL[chr9:40.92Mb]"]']))
        elif fmt == 'catcher':
            gid1 = id1 if r['versioned'] else id1.split('.')[0]
            gid2 = g2['id'] if r['versioned'] else g2['id'].split('.')[0]
            lines.append('\t'.join([g1['name'], g2['name'], 'oncogene', str(r['common']), '1298',
                str(r['unique']), '21', 'BOWTIE+STAR', f"{chrom1[3:]}:{r['lp'] + 1}:{s1}",
                f"{g2['chrom'][3:]}:{r['rp'] + 1}:{s2}", gid1, gid2, '', '',
                'TTGACGAGAC*CGCCCTGCGA', 'intronic/exonic(no-known-CDS)']))
        else:
            t1 = s1 if not r['antisense'] else ('-' if s1 == '+' else '+')
            lines.append('\t'.join([g1['name'], g2['name'], f'{s1}/{t1}', f'{s2}/{s2}',
                f"{chrom1}:{r['lp'] + 1}", f"{g2['chrom']}:{r['rp'] + 1}", 'CDS/splice-site',
                'intron', "deletion/5'-5'", str(r['sr1']), str(r['sr2']), '19', '191', '92',
                r['conf'], 'out-of-frame', '.', '.', '.', '.', id1, g2['id'], '.', '.',
                'downstream', 'downstream', 'duplicates(30)', 'TTGACG|CGCCCT', '.', 'r1,r2']))
    head = {'star': '#FusionName\tJunctionReadCount\tSpanningFragCount\test_J\test_S\tSpliceType\t'
        'LeftGene\tLeftBreakpoint\tRightGene\tRightBreakpoint\tJunctionReads\tSpanningFrags\t'
        'LargeAnchorSupport\tFFPM\tLeftBreakDinuc\tLeftBreakEntropy\tRightBreakDinuc\t'
        'RightBreakEntropy\tannots',
        'catcher': 'Gene_1_symbol(5end_fusion_partner)\tGene_2_symbol(3end_fusion_partner)\t'
        'Fusion_description\tCounts_of_common_mapping_reads\tSpanning_pairs\t'
        'Spanning_unique_reads\tLongest_anchor_found\tFusion_finding_method\t'
        'Fusion_point_for_gene_1(5end_fusion_partner)\tFusion_point_for_gene_2('
        '3end_fusion_partner)\tGene_1_id(5end_fusion_partner)\tGene_2_id(3end_fusion_partner)\t'
        'Exon_1_id(5end_fusion_partner)\tExon_2_id(3end_fusion_partner)\tFusion_sequence\t'
        'Predicted_effect',
        'arriba': '#gene1\tgene2\tstrand1(gene/fusion)\tstrand2(gene/fusion)\tbreakpoint1\t'
        'breakpoint2\tsite1\tsite2\ttype\tsplit_reads1\tsplit_reads2\tdiscordant_mates\t'
        'coverage1\tcoverage2\tconfidence\treading_frame\ttags\tretained_protein_domains\t'
        'closest_genomic_breakpoint1\tclosest_genomic_breakpoint2\tgene_id1\tgene_id2\t'
        'transcript_id1\ttranscript_id2\tdirection1\tdirection2\tfilters\tfusion_transcript\t'
        'peptide_sequence\tread_identifiers'}[fmt]
    path.write_text(head + '\n' + '\n'.join(lines) + '\n')


def direct_fusion(ref, dtx, atx, lp, rp):
    """ fusion sequence straight from the genomic breakpoints: donor transcript up to genomic
    base lp (last retained; when intronic the intronic bases after the upstream exon are
    retained), then from genomic base rp of the acceptor (first retained; when intronic the
    intronic bases up to the next exon are retained). None if a side has no exonic base left """
    gd, ga = ref.gene_of(dtx), ref.gene_of(atx)
    chd, cha = ref.chroms[gd['chrom']], ref.chroms[ga['chrom']]
    idx_d, idx_a = ref.tx_genomic(dtx), ref.tx_genomic(atx)
    seq_d, seq_a = ref.tx_seq(dtx), ref.tx_seq(atx)

    def base(ch, p, strand):
        return ch[p] if strand == 1 else rc(ch[p])
    sd = gd['strand']
    if lp in idx_d:
        left = seq_d[:idx_d.index(lp) + 1]
    else:
        ups = [i for i, p in enumerate(idx_d) if (p < lp if sd == 1 else p > lp)]
        if not ups:
            return None
        i = max(ups)
        rng = range(idx_d[i] + 1, lp + 1) if sd == 1 else range(idx_d[i] - 1, lp - 1, -1)
        left = seq_d[:i + 1] + ''.join(base(chd, p, sd) for p in rng)
    sa = ga['strand']
    if rp in idx_a:
        right = seq_a[idx_a.index(rp):]
    else:
        dns = [i for i, p in enumerate(idx_a) if (p > rp if sa == 1 else p < rp)]
        if not dns:
            return None
        j = min(dns)
        rng = range(rp, idx_a[j]) if sa == 1 else range(rp, idx_a[j], -1)
        right = ''.join(base(cha, p, sa) for p in rng) + seq_a[j:]
    return left + right


def prop(case, ctx):
    # pylint: disable=too-many-locals,too-many-branches,too-many-statements,too-many-return-statements
    from vf.checks.c14 import parse_gvf, ref_ns
    out = Outcome()
    fmt = case['fmt']
    out.label('fmt:' + fmt)
    ref = Ref(case['ref'])
    d = ctx.fresh_dir('c15')
    write_reference(ref, d)
    write_rows(ref, case, d/'fusion.txt')
    th = case['th']
    cmd = {'star': 'parse_star_fusion', 'catcher': 'parse_fusion_catcher',
        'arriba': 'parse_arriba'}[fmt]
    a = argparse.Namespace(command=cmd, input_path=d/'fusion.txt', output_path=d/'fusion.gvf',
        source='Fusion', skip_failed=False, **th, **ref_ns(d))
    def reaches_conversion(row):
        if row['unknown'] or not accepted(fmt, row, th):
            return False
        return not (fmt == 'arriba' and row['antisense'])
    fatal = [row for row in case['rows'] if row.get('nochrom') and reaches_conversion(row)]
    if fatal:
        # a row that cannot be converted: without --skip-failed the command must end with an
        # error; with it the row is skipped and the others are converted as usual
        out.label('unconvertible_row')
        try:
            with drive.quiet():
                getattr(mod(cmd), cmd)(a)
        except Exception:     # pylint: disable=broad-except
            pass
        else:
            return out.fail(f'{cmd} without --skip-failed completed although a row names a '
                f'contig that the genome does not hold (rows {case["rows"]})',
                fmt + '-no-abort')
        if (d/'fusion.gvf').exists():
            (d/'fusion.gvf').unlink()
        a.skip_failed = True
    try:
        with drive.quiet(capture_log=True) as h:
            import logging
            logging.getLogger('moPepGen').addHandler(h)
            getattr(mod(cmd), cmd)(a)
        log = h.lines
    except Exception as e:     # pylint: disable=broad-except
        return out.fail(f'{cmd} raised {type(e).__name__}: {e} (rows {case["rows"]})',
            f'{fmt}-exc:' + type(e).__name__)
    recs = parse_gvf(d/'fusion.gvf')
    got = {}
    for r in recs:
        if r['id'] in got:
            return out.fail(f'record {r["id"]} emitted twice', fmt + '-duplicate')
        got[r['id']] = r
    expected = {}
    n_skip = dict(gene=0, evidence=0, antisense=0)
    nontrivial = False
    for row in case['rows']:
        g1, g2 = ref.genes[row['g1']], ref.genes[row['g2']]
        if row in fatal:
            continue
        if fmt == 'arriba':
            if row['unknown']:
                n_skip['gene'] += 1
                continue
            if not accepted(fmt, row, th):
                n_skip['evidence'] += 1
                continue
            if row['antisense']:
                n_skip['antisense'] += 1
                continue
        else:
            if not accepted(fmt, row, th):
                n_skip['evidence'] += 1
                continue
            if row['unknown']:
                n_skip['gene'] += 1
                continue
        dtxs = [t['id'] for t in g1['txs'] if t['exons'][0][0] <= row['lp'] < t['exons'][-1][1]]
        atxs = [t['id'] for t in g2['txs'] if t['exons'][0][0] <= row['rp'] < t['exons'][-1][1]]
        dpos = ref.gene_index(g1['id'], row['lp']) + 1
        apos = ref.gene_index(g2['id'], row['rp'])
        for dtx in dtxs:
            for atx in atxs:
                fid = f'FUSION-{dtx}:{dpos}-{atx}:{apos}'
                expected[fid] = dict(dtx=dtx, atx=atx, lp=row['lp'], rp=row['rp'], dpos=dpos,
                    apos=apos)
        if len(dtxs) * len(atxs) >= 2 or g1['strand'] == -1 or g2['strand'] == -1:
            nontrivial = True
    if set(got) != set(expected):
        return out.fail(f'{fmt}: records {sorted(set(got) - set(expected))[:3]} unexpected, '
            f'{sorted(set(expected) - set(got))[:3]} missing (one record per eligible donor x '
            f'acceptor transcript pair of every accepted row; thresholds {th})',
            fmt + '-records:' + ('unexpected' if set(got) - set(expected) else 'missing'),
            detail=dict(rows=case['rows']))
    fusion_recs = []
    for fid, e in expected.items():
        r = got[fid]
        at = r['attrs']
        if r['gene'] != ref.gene_of(e['dtx'])['id'] or at.get('TRANSCRIPT_ID') != e['dtx'] or \
                at.get('ACCEPTER_TRANSCRIPT_ID') != e['atx'] or \
                at.get('ACCEPTER_GENE_ID') != ref.gene_of(e['atx'])['id']:
            return out.fail(f'{fid}: gene / transcript attributes wrong: {r}', fmt + '-attrs')
        rec = dict(kind='fusion', tx=e['dtx'], atx=e['atx'], dpos=r['pos'],
            apos=int(at['ACCEPTER_POSITION']) - 1, id=fid)
        parts = M.fusion_parts(ref, rec)
        direct = direct_fusion(ref, e['dtx'], e['atx'], e['lp'], e['rp'])
        denoted = parts['fused'] if parts else None
        if denoted != direct:
            return out.fail(f'{fmt} {fid}: the record (POS {r["pos"] + 1}, ACCEPTER_POSITION '
                f'{at["ACCEPTER_POSITION"]}) denotes a fusion sequence that differs from the one '
                f'the breakpoints {e["lp"] + 1} / {e["rp"] + 1} define (donor strand '
                f'{ref.gene_of(e["dtx"])["strand"]}, acceptor strand '
                f'{ref.gene_of(e["atx"])["strand"]})', fmt + '-sequence',
                detail=dict(denoted=denoted, direct=direct))
        fusion_recs.append(rec)
        if e['lp'] not in ref.tx_genomic(e['dtx']) or e['rp'] not in ref.tx_genomic(e['atx']):
            nontrivial = True
            out.label('intronic_breakpoint')
    # tally
    text = '\n'.join(log)
    for key, pat in (('gene', r'Invalid gene ID: (\d+)'), ('evidence',
            r'Insufficient evidence: (\d+)'), ('antisense', r'Antisense strand: (\d+)')):
        m = re.search(pat, text)
        if m and int(m.group(1)) != n_skip[key]:
            return out.fail(f'{fmt}: tally "{pat[:-7]}" = {m.group(1)}, expected '
                f'{n_skip[key]}', fmt + '-tally')
    # end to end through callVariant
    if fusion_recs and len(fusion_recs) <= 6:
        cv = dict(family='fusion', ref=case['ref'], records=fusion_recs, opts=case['opts'])
        try:
            peps, dups, _ = drive.call_variant(d, [d/'fusion.gvf'], case['opts'])
        except Exception as e:     # pylint: disable=broad-except
            b = cveval.crash_bucket(e)
            if 'expand_alignments' in b:
                out.known.append('C01-fusion-expand-alignments-crash')
                peps = None
            else:
                return out.fail(f'callVariant on the parser\'s GVF raised {type(e).__name__}: '
                    f'{e}', 'callvariant-exc:' + b)
        if peps is not None:
            b = cveval.bounds(cv)
            missing = b['L'] - set(peps)
            if missing:
                return out.fail(f'{len(missing)} junction peptides of the parsed fusions are '
                    f'missing from callVariant\'s output, e.g. {sorted(missing)[:3]}',
                    'callvariant-missing')
            for s, hdr in peps.items():
                for e in cveval.parse_header(hdr):
                    if e['backbone'].startswith('FUSION-') and \
                            s not in b['U_by'].get(e['backbone'], ()):
                        return out.fail(f'{s} [{e["entry"]}] is not a digestion product of the '
                            'fusion sequence the breakpoints define', 'callvariant-unsound')
            if peps:
                out.label('fusion_peptides')
    out.nontrivial = nontrivial and bool(expected)
    out.label(f'pairs:{min(len(expected), 5)}')
    return out
