""" C08 — callNovelORF equals the definitional ORF digest; ORF FASTA consistency. """
from hypothesis import strategies as st
from vf.harness import Outcome
from vf import cveval, refgen, drive, enz, cvmodel as M
from vf.model import Ref, write_reference, translate
from vf.dr import D

ID = 'C08'
LEVEL = 'exploration'
RULE = ('generated references mixing coding / non-coding transcripts of several biotypes '
    '(1-3 genes, <=3 isoforms, both strands) x cleavage rule and limits x orf-assignment, '
    'w2f, coding-novel-orf, inclusion / exclusion biotype files, min-tx-length; oracle: for '
    'every transcript the options select, every ATG in three frames is translated to the next '
    'stop or the transcript end, digested (first product also without its Met), filtered, '
    'minus the model canonical pool, W>F forms of the survivors when requested: set equality '
    'L <= FASTA <= U (U additionally holds W>F forms of canonical products, which the statement '
    'does not order); every (transcript, ORF id) named by a peptide header must be listed in '
    'the ORF FASTA, every listed ORF must start at an ATG of a selected transcript, end at the '
    'next stop / transcript end and translate to the listed sequence, and a peptide must be a '
    'product of (one of) the ORF(s) its header names. Non-trivial = at least one selected and '
    'one unselected transcript, ORFs in >= 2 frames, >= 1 peptide; distinct by canonical JSON')
ASSUMPTIONS = [
    'transcript selection as documented: coding (= has a proteome entry) only with '
    '--coding-novel-orf; non-coding ones must pass inclusion list (if given), exclusion list '
    '(packaged default list otherwise) and --min-tx-length',
    'canonical pool and digestion by the independent enzyme model (vf.enz), validated by C10',
]
BUDGET = {'quick': 1200, 'thorough': 25000}

DEFAULT_EXCLUSION = ['protein_coding', 'Mt_rRNA', 'Mt_tRNA', 'miRNA', 'misc_RNA', 'rRNA',
    'scRNA', 'snRNA', 'snoRNA', 'ribozyme', 'sRNA', 'scaRNA', 'Mt_tRNA_pseudogene',
    'tRNA_pseudogene', 'snoRNA_pseudogene', 'snRNA_pseudogene', 'scRNA_pseudogene',
    'rRNA_pseudogene', 'misc_RNA_pseudogene', 'miRNA_pseudogene', 'artifact',
    'vaultRNA/vault_RNA']


@st.composite
def strategy_(draw, tier):
    d = D(draw)
    refd = refgen.gen_reference(d, n_genes=(1, 3), max_tx=d.choice([1, 2, 3]),
        p_coding=0.45, p_nf=0.1, exon_len=(9, 60))
    # zero tolerance over all 35 rules and all exception settings (400 000 thorough cases on
    # the unchanged tree: no discrepancy)
    opts = cveval.gen_opts(d, cveval.ALL_ENZYMES, alt=False, limits=True,
        exceptions=(None, None, 'auto', 'trypsin_exception'))
    opts.update(orf_assignment=d.choice(['max', 'min']), w2f=d.chance(0.4),
        coding_novel_orf=d.chance(0.4), min_tx_length=d.choice([21, 21, 40, 80, 120]))
    biotypes = sorted({g['biotype'] for g in refd['genes']})
    incl = excl = None
    if d.chance(0.3):
        incl = d.subset(biotypes + ['lncRNA'], 0.6)
    if d.chance(0.4):
        excl = d.subset(biotypes + ['miRNA'], 0.4)
    return dict(ref=refd, opts=opts, inclusion=incl, exclusion=excl, records=[])


def strategy(tier):
    return strategy_(tier)


def selected(ref:Ref, case):
    o = case['opts']
    incl = case.get('inclusion') or []
    excl = case.get('exclusion')
    if excl is None:      # no file given: the packaged list is used
        excl = DEFAULT_EXCLUSION
    out = []
    for tid, (g, t) in ref.txs.items():
        if t.get('cds'):
            if o.get('coding_novel_orf'):
                out.append(tid)
            continue
        # the biotype filters look at the gene's biotype (gene_type attribute)
        if incl and g['biotype'] not in incl:
            continue
        if g['biotype'] in excl:
            continue
        if len(ref.tx_seq(tid)) < o['min_tx_length']:
            continue
        out.append(tid)
    return out


def orf_digest(seq, s, p):
    """ (certain, possible) products of the ORF starting at nucleotide s. The statement
    digests the translation that begins at the ATG; the tool reads cleavage rules with a
    look-behind of several residues (caspases, thrombin, ...) in the context of the whole
    reading frame, i.e. with the residues upstream of the ATG. Both readings are accepted:
    certain = products under every reading, possible = products under any """
    pr = translate(seq[s:])
    k = pr.find('*')
    if k >= 0:
        pr = pr[:k]
    up = translate(seq[s % 3:s])
    readings = enz.context_site_lists(pr, [up[up.rfind('*') + 1:], up], ['*'] if k >= 0 else [],
        p['rule'], p.get('exception'))
    lo = hi = None
    for site_list in readings:
        a = enz.digest(pr, p, m_removal=True, strict=True, site_list=site_list)
        b = enz.digest(pr, p, m_removal=True, strict=False, site_list=site_list)
        lo = a if lo is None else lo & a
        hi = b if hi is None else hi | b
    return lo, hi


def orfs_of(seq):
    """ {start: (end, protein)} for every ATG; end = start of the stop codon or the last
    complete codon boundary """
    out = {}
    for s in M.atg_starts(seq):
        pr = translate(seq[s:])
        k = pr.find('*')
        if k >= 0:
            pr = pr[:k]
        out[s] = (s + 3 * len(pr), pr)
    return out


def prop(case, ctx):
    # pylint: disable=too-many-locals,too-many-branches,too-many-statements
    out = Outcome()
    o = case['opts']
    out.label('rule:' + o['rule'])
    ref = Ref(case['ref'])
    p = M.params_of(o)
    d = ctx.fresh_dir('novel')
    write_reference(ref, d)
    oo = dict(o)
    if case.get('inclusion') is not None:
        (d/'incl.txt').write_text(''.join(x + '\n' for x in case['inclusion']))
        oo['inclusion_biotypes'] = d/'incl.txt'
    if case.get('exclusion') is not None:
        (d/'excl.txt').write_text(''.join(x + '\n' for x in case['exclusion']))
        oo['exclusion_biotypes'] = d/'excl.txt'
    try:
        peps, dups, orfs = drive.call_novel_orf(d, oo)
    except Exception as e:     # pylint: disable=broad-except
        return out.fail(f'callNovelORF raised {type(e).__name__}: {e}', cveval.crash_bucket(e))
    sel = selected(ref, case)
    canon_hi = M.canonical(ref, p, strict=False)
    canon_lo = M.canonical(ref, p, strict=True)
    L, U = set(), set()
    per_orf = {}
    all_orfs = {}
    frames = set()
    for tid in sel:
        seq = ref.tx_seq(tid)
        all_orfs[tid] = orfs_of(seq)
        for s in M.atg_starts(seq):
            frames.add(s % 3)
            lo, hi = orf_digest(seq, s, p)
            per_orf[(tid, s)] = hi
            L |= lo
            U |= hi
    L -= canon_hi
    u_plain = U - canon_lo
    if o.get('w2f'):
        L = M.add_w2f(L, p, True) - canon_hi
        U = M.add_w2f(U, p, False) - canon_lo
    else:
        U = u_plain
    got = set(peps)
    missing = L - got
    extra = got - U
    if missing:
        return out.fail(f'{len(missing)} definitional novel-ORF peptide(s) missing, e.g. '
            f'{sorted(missing)[:4]} (reported {len(got)}, expected >= {len(L)})',
            'missing:' + o['rule'], detail=dict(missing=sorted(missing)[:10], selected=sel))
    if extra:
        return out.fail(f'{len(extra)} reported peptide(s) are not novel-ORF products of the '
            f'selected transcripts {sel}, e.g. {[(s, peps[s]) for s in sorted(extra)[:3]]}',
            'extra:' + o['rule'], detail=dict(extra=sorted(extra)[:10], selected=sel))
    if dups:
        return out.fail(f'sequence written twice: {dups[:3]}', 'duplicate')
    # ORF FASTA
    listed = {}
    for hdr, pseq in orfs:
        f = hdr.split('|')
        if len(f) != 4 or '-' not in f[3]:
            return out.fail(f'malformed ORF header {hdr}', 'orf-header')
        tid, gid, oid = f[0], f[1], f[2]
        a, b = (int(x) for x in f[3].split('-'))
        if tid not in sel:
            return out.fail(f'ORF {hdr} belongs to a transcript the options do not select',
                'orf-unselected')
        if ref.gene_of(tid)['id'] != gid:
            return out.fail(f'ORF {hdr}: wrong gene id', 'orf-gene')
        seq = ref.tx_seq(tid)
        exp = orfs_of(seq)
        if a not in exp:
            return out.fail(f'ORF {hdr} does not start at an ATG', 'orf-start')
        if exp[a][0] != b or exp[a][1] != pseq:
            return out.fail(f'ORF {hdr}: coordinates {a}-{b} translate to {exp[a][1]} (ending '
                f'{exp[a][0]}), listed {pseq}', 'orf-seq')
        if (tid, oid) in listed:
            return out.fail(f'ORF id {tid}|{oid} listed twice', 'orf-dup')
        listed[(tid, oid)] = a
    n_multi = 0
    for seq, hdr in peps.items():
        for e in cveval.parse_header(hdr):
            if e['backbone'] not in sel or e['orf'] is None:
                return out.fail(f'peptide {seq}: header entry {e["entry"]} does not name an ORF '
                    'of a selected transcript', 'pep-header')
            key = (e['backbone'], e['orf'])
            if key not in listed:
                return out.fail(f'peptide {seq} is attributed to {key} which the ORF FASTA '
                    'does not list', 'orf-not-listed')
            # the peptide must be a product of the named ORF or of an ORF nested in it (same
            # frame, same stop, start downstream): --orf-assignment picks among those
            tid = e['backbone']
            a = listed[key]
            ends = all_orfs[tid]
            cand = set()
            for s2, (e2, _) in ends.items():
                if s2 >= a and e2 == ends[a][0] and (s2 - a) % 3 == 0:
                    cand |= per_orf[(tid, s2)]
            forms = cand if not o.get('w2f') else M.add_w2f(set(cand), p, False)
            if seq not in forms:
                return out.fail(f'peptide {seq} is not a product of the ORF {key} '
                    f'(start {a}) its header names, nor of an ORF nested in it',
                    'orf-attribution', detail=dict(seq=seq, header=hdr))
        if len(hdr.split(' ')) > 1:
            n_multi += 1
    unsel = [t for t in ref.txs if t not in sel]
    out.nontrivial = bool(sel) and bool(unsel) and len(frames) >= 2 and bool(got)
    out.label(*[x for x in refgen.describe(case['ref']) if x.startswith(('strand', 'tx:'))])
    if got:
        out.label('output_nonempty')
    if o.get('w2f') and any('W2F' in h for h in peps.values()):
        out.label('w2f_peptide')
    if o.get('coding_novel_orf'):
        out.label('opt:coding_novel_orf')
    if case.get('inclusion') is not None:
        out.label('opt:inclusion')
    if case.get('exclusion') is not None:
        out.label('opt:exclusion')
    if n_multi:
        out.label('multi_entry_header')
    if u_plain - L:
        out.label('mass_band_or_w2f_gap')
    return out
