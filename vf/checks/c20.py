""" C20 — decoyFasta: one faithful, reproducible decoy per target. """
import io
import random
import argparse
import importlib
import contextlib
from hypothesis import strategies as st
from vf.harness import Outcome
from vf import enz
from vf.dr import D

ID = 'C20'
LEVEL = 'exploration'
RULE = ('generated target FASTAs with unique sequences (5-40 residues, incl. low-complexity '
    'and K/R/D/C-rich peptides, multi-entry style headers) in a generated record order x '
    'method (reverse / shuffle) x --enzyme (none or a rule) x keep-peptide-nterm / -cterm x '
    '--non-shuffle-pattern x seed x decoy string prefix / suffix x output order. Oracle: every '
    'target is written unchanged; exactly one decoy per target, header = target header with '
    'the decoy string attached; the decoy is a rearrangement of the target\'s residues with '
    'every requested fixed position in place (termini, listed residues, for the enzyme the '
    'residue the rule recognises at each cleavage site); for the reverse method the decoy is '
    'exactly the reversal of the non-fixed positions; running twice with one seed (with the '
    'global RNG perturbed in between) gives identical files; permuting the input records '
    'gives the same record set; the requested output order holds. Non-trivial = a target with '
    '>= 1 internal cleavage site of the chosen enzyme and >= 1 listed residue; distinct by '
    'canonical JSON')
ASSUMPTIONS = [
    'strict domain: no enzyme or a rule that recognises the residue C-terminal of the cut '
    '(lysn, asp-n, ntcb, thermolysin): the residue at the cleavage site is unambiguous',
    'wild domain (thorough): all rules; a moved residue is tolerated only as the open '
    'finding C20-enzyme-site-offset',
]
BUDGET = {'quick': 300, 'thorough': 8000}
NTERM_CUTTERS = ['lysn', 'asp-n', 'ntcb', 'thermolysin']
CTERM_CUTTERS = ['trypsin', 'lysc', 'arg-c', 'cnbr', 'chymotrypsin high specificity',
    'glutamyl endopeptidase', 'proteinase k', 'formic acid', 'clostripain',
    'staphylococcal peptidase i', 'bnps-skatole', 'iodosobenzoic acid']
# residue recognised by the rule, relative to the site index s (s = index of the residue after
# the cut): 0 for N-terminal cutters, -1 for C-terminal cutters


@st.composite
def strategy_(draw, tier):
    d = D(draw)
    n = d.randint(1, 14)
    seqs = []
    while len(seqs) < n:
        kind = d.rng.random()
        ln = d.randint(5, 40)
        if kind < 0.2:
            s = d.letters(d.choice(['AK', 'GR', 'AAK', 'LD', 'CK']), ln)
        elif kind < 0.5:
            s = d.letters('ACDEFGHIKLMNPQRSTVWYKRKRDC', ln)
        else:
            s = d.letters('ACDEFGHIKLMNPQRSTVWY', ln)
        if s not in seqs:
            seqs.append(s)
    records = []
    for i, s in enumerate(seqs):
        hdr = d.choice([f'ENST{i:04d}.1|SNV-{10 + i}-A-T|{i + 1}',
            f'ENST{i:04d}.1|SNV-{10 + i}-A-T|1 ENST{i + 50:04d}.2|INDEL-5-AC-A|2',
            f'CIRC-ENST{i:04d}.1-5:90|SNV-{i + 3}-C-G|1', f'pep_{i}'])
        records.append([hdr, s])
    wild = tier != 'quick' and d.chance(0.4)
    enzyme = d.choice([None, None] + (CTERM_CUTTERS + NTERM_CUTTERS if wild else NTERM_CUTTERS))
    pattern = d.choice([[], [], ['K', 'R'], ['P'], ['C', 'D', 'K'], ['A']])
    opts = dict(method=d.choice(['reverse', 'shuffle']), enzyme=enzyme,
        keep_nterm=d.chance(0.7), keep_cterm=d.chance(0.7), pattern=pattern,
        seed=d.choice([None, 0, 1, 42, 123123, d.randint(0, 10 ** 6)]),
        decoy=d.choice([['DECOY_', 'prefix'], ['DECOY_', 'prefix'], ['_REV', 'suffix'],
            ['rev|', 'prefix']]),
        order=d.choice(['juxtaposed', 'target_first', 'decoy_first']),
        max_attempts=d.choice([30, 30, 3, 1]), perm=d.randint(0, 10 ** 6),
        rng_a=d.randint(0, 10 ** 6), rng_b=d.randint(0, 10 ** 6))
    return dict(records=records, opts=opts)


def strategy(tier):
    return strategy_(tier)


def run(d, records, o, name):
    fa = d/f'{name}.in.fasta'
    fa.write_text(''.join(f'>{h}\n{s}\n' for h, s in records))
    a = argparse.Namespace(command='decoyFasta', input_path=fa, output_path=d/f'{name}.fasta',
        method=o['method'], enzyme=o['enzyme'], non_shuffle_pattern=','.join(o['pattern']),
        shuffle_max_attempts=o['max_attempts'],
        keep_peptide_nterm='true' if o['keep_nterm'] else 'false',
        keep_peptide_cterm='true' if o['keep_cterm'] else 'false', seed=o['seed'],
        decoy_string=o['decoy'][0], decoy_string_position=o['decoy'][1], order=o['order'],
        quiet=True, debug_level=1)
    with contextlib.redirect_stdout(io.StringIO()), contextlib.redirect_stderr(io.StringIO()):
        importlib.import_module('moPepGen.cli.decoy_fasta').decoy_fasta(a)
    out = []
    for line in open(d/f'{name}.fasta'):
        line = line.rstrip('\n')
        if line.startswith('>'):
            out.append([line[1:], ''])
        elif line:
            out[-1][1] += line
    return out


def fixed_positions(seq, o):
    """ (certain fixed positions, P1 positions of C-terminal cutters) by the statement """
    fixed = set()
    p1 = set()
    n = len(seq)
    if o['keep_nterm']:
        fixed.add(0)
    if o['keep_cterm']:
        fixed.add(n - 1)
    for i, c in enumerate(seq):
        if c in o['pattern']:
            fixed.add(i)
    if o['enzyme']:
        for s in enz.sites(seq, o['enzyme']):
            if o['enzyme'] in NTERM_CUTTERS:
                fixed.add(s)
            else:
                p1.add(s - 1)
    return fixed, p1


def prop(case, ctx):
    # pylint: disable=too-many-locals,too-many-branches,too-many-statements,too-many-return-statements
    out = Outcome()
    o = case['opts']
    d = ctx.fresh_dir('c20')
    records = [tuple(x) for x in case['records']]
    out.label('method:' + o['method'], 'enzyme:' + str(o['enzyme']), 'order:' + o['order'])
    random.seed(o['rng_a'])
    try:
        res = run(d, records, o, 'a')
    except Exception as e:     # pylint: disable=broad-except
        return out.fail(f'decoyFasta raised {type(e).__name__}: {e}', 'exc:' + type(e).__name__)
    dec, pos = o['decoy']

    def is_decoy(h):
        return h.startswith(dec) if pos == 'prefix' else h.endswith(dec)

    def strip(h):
        return h[len(dec):] if pos == 'prefix' else h[:-len(dec)]
    targets = [(h, s) for h, s in res if not is_decoy(h)]
    decoys = [(h, s) for h, s in res if is_decoy(h)]
    if sorted(targets) != sorted(records):
        return out.fail(f'targets were not written unchanged: {sorted(targets)[:2]} vs '
            f'{sorted(records)[:2]}', 'targets-changed')
    if sorted(strip(h) for h, _ in decoys) != sorted(h for h, _ in records):
        return out.fail('not exactly one decoy per target (by header)', 'decoy-count',
            detail=dict(decoys=[h for h, _ in decoys][:6]))
    tseq = dict(records)
    nontrivial = False
    for h, ds in decoys:
        ts = tseq[strip(h)]
        if sorted(ds) != sorted(ts):
            return out.fail(f'decoy {ds} is not a rearrangement of its target {ts}',
                'not-a-permutation')
        fixed, p1 = fixed_positions(ts, o)
        moved = [i for i in fixed if ds[i] != ts[i]]
        if moved:
            return out.fail(f'target {ts} -> decoy {ds}: fixed position(s) {sorted(moved)} '
                f'moved (options {o})', 'fixed-moved:' + ('term' if set(moved) & {0, len(ts) - 1}
                    else 'inner'), detail=dict(target=ts, decoy=ds, moved=sorted(moved)))
        moved_p1 = [i for i in p1 if ds[i] != ts[i] and i not in fixed]
        if moved_p1:
            # C-terminal cutter: the tool pins the residue after the recognised one
            if all(ds[i + 1] == ts[i + 1] for i in moved_p1):
                out.known.append('C20-enzyme-site-offset')
            else:
                return out.fail(f'target {ts} -> decoy {ds}: cleavage-site residue(s) at '
                    f'{sorted(moved_p1)} moved and the following residue is not pinned either',
                    'site-moved')
        if o['method'] == 'reverse' and not p1:
            free = [i for i in range(len(ts)) if i not in fixed]
            exp = list(ts)
            for i, j in zip(free, reversed(free)):
                exp[i] = ts[j]
            if ''.join(exp) != ds:
                return out.fail(f'reverse: target {ts} fixed {sorted(fixed)} -> {ds}, expected '
                    f'{"".join(exp)}', 'reverse-exact')
        if o['enzyme'] and enz.sites(ts, o['enzyme']) and any(c in o['pattern'] for c in ts):
            nontrivial = True
    # order
    n = len(records)
    kinds = [is_decoy(h) for h, _ in res]
    if o['order'] == 'juxtaposed':
        ok = kinds == [False, True] * n and all(strip(res[2 * i + 1][0]) == res[2 * i][0]
            for i in range(n))
    elif o['order'] == 'target_first':
        ok = kinds == [False] * n + [True] * n
    else:
        ok = kinds == [True] * n + [False] * n
    if not ok:
        return out.fail(f'output order {o["order"]} not respected: {kinds}', 'order')
    # reproducibility for a given seed, independent of the global RNG state
    if o['seed'] is not None:
        random.seed(o['rng_b'])
        res2 = run(d, records, o, 'b')
        if res2 != res:
            return out.fail(f'two runs with --seed {o["seed"]} differ', 'seed-reproducibility')
        # independent of the input record order
        perm = list(records)
        random.Random(o['perm']).shuffle(perm)
        res3 = run(d, perm, o, 'c')
        if sorted(res3) != sorted(res):
            return out.fail('permuting the input records changed the set of output records',
                'input-order')
        out.label('seeded')
    out.nontrivial = nontrivial
    return out
