""" C03 — FASTA headers are truthful witnesses for their peptides. """
import os
from hypothesis import strategies as st
from vf.harness import Outcome
from vf import cveval, refgen
from vf.dr import D

ID = 'C03'
LEVEL = 'exploration'
RULE = ('generated references + GVF record sets (families small, multi-transcript, AS, fusion, '
    'circRNA; biased to frameshifts, stop gain/loss, same-position alleles, adjacent pairs) x '
    'cleavage / alt-translation options; for EVERY (peptide, header entry) pair of the output: '
    'the ids exist for that backbone, are mutually compatible, and applying exactly them '
    'yields a translation with the peptide as digestion product (SECT/W2F forms only when the '
    'entry names such an id; other start sites only with an ORF id or a non-coding backbone); '
    'every entry string is unique in the FASTA. Non-trivial = some entry names >= 2 variants '
    'or a fusion/circRNA backbone; distinct by canonical JSON')
ASSUMPTIONS = [
    'header grammar: entries separated by a blank, fields by "|", first = backbone, last = '
    'index, ORFk / SECT-* / W2F-* recognised by prefix, fusion partner prefixes 1-/2-',
    'witness check is liberal where the model is two-sided (ambiguous Sec codons, mass band)',
    'open finding C03-upstream-attribution is tolerated only with its structural signature: '
    'a valid witness exists that differs from the named set only in records ending upstream '
    'of the peptide',
]
BUDGET = {'quick': 500, 'thorough': 4000}
FAMILIES = ['small', 'small', 'small', 'multi', 'as', 'as_nested', 'fusion', 'circ', 'fuscirc']


@st.composite
def strategy_(draw, tier):
    d = D(draw)
    fam = d.choice(FAMILIES)
    wild = tier != 'quick' and d.chance(0.5)
    return cveval.gen_case(d, family=fam,
        enzymes=cveval.ALL_ENZYMES if wild else cveval.STRICT_ENZYMES,
        n_small=(2, 6), spread=d.choice([6, 12, 12, 20]),
        exceptions=(None, None, 'auto', 'trypsin_exception') if wild else (None,),
        ref_kw=dict(utr_styles=('gencode', 'gencode', 'ensembl')))


def strategy(tier):
    return strategy_(tier)


def prop(case, ctx):
    out = Outcome()
    out.label('family:' + case['family'], 'rule:' + case['opts']['rule'])
    if case.get('planted'):
        out.label('planted:' + case['planted'])
    if not case['records']:
        return out.label('no_records')
    dom = cveval.known_domain_findings(case)
    try:
        res = cveval.run_tool(case, ctx)
    except Exception as e:     # pylint: disable=broad-except
        if 'Failed to finish transcript' in str(e):
            out.inconclusive = 'tool_timeout'      # wall-clock give-up, never a violation
            return out
        bucket = cveval.crash_bucket(e)
        if any(r['kind'] == 'fusion' for r in case['records']) and 'expand_alignments' in bucket:
            out.known.append('C01-fusion-expand-alignments-crash')
            return out
        if dom:
            out.known.append(dom[0])
            return out
        return out.fail(f'callVariant raised {type(e).__name__}: {e}', bucket)
    try:
        bad, known, stats = cveval.check_headers(case, res)
    except OverflowError:
        out.inconclusive = 'too_many_records'
        return out
    for k, _, _ in known:
        out.known.append(k)
    if bad and dom:
        out.known.append(dom[0])
        bad = []
    if bad:
        cls, seq, entry, msg = bad[0]
        return out.fail(f'{len(bad)} untruthful header entr(y/ies), e.g. {seq} <- {entry}: {msg}',
            'header:' + cls, detail=dict(bad=bad[:10]))
    out.nontrivial = stats['nontrivial']
    out.label('entries:%d' % min(50, 10 * (stats['n_entries'] // 10)))
    if case['opts'].get('sect'):
        out.label('opt:sect')
    if case['opts'].get('w2f'):
        out.label('opt:w2f')
    return out
