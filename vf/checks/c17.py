""" C17 — parseCIRCexplorer records denote the reported circular RNA. """
import io
import re
import argparse
import contextlib
from hypothesis import strategies as st
from vf.harness import Outcome
from vf import refgen, drive
from vf.model import Ref, write_reference, rc
from vf.dr import D

ID = 'C17'
LEVEL = 'exploration'
RULE = ('generated annotations (1-2 genes, <=2 isoforms, both strands, 2-5 exons) x 1-5 '
    'CIRCexplorer rows for a transcript: circRNA rows listing a consecutive or '
    'non-consecutive exon subset in genomic block order, ciRNA rows for one intron with start / '
    'end shifted around the --intron-start-range / --intron-end-range tolerances, rows with a '
    'block that is not an exon of the transcript, read numbers (and CIRCexplorer3 scores) '
    'around the thresholds; CIRCexplorer2 and CIRCexplorer3 layouts; options passed through '
    'the real argument parser. Oracle: exactly the rows that pass the thresholds and match '
    'the transcript give one record each; its fragments\' gene intervals equal the '
    'strand-corrected reported blocks; the circular sequence read from the gene (fragments '
    'in gene order) equals the reported genomic blocks concatenated in transcript '
    'orientation; the id is CIRC-<transcript>-<start>:<end> of the back-splice in gene '
    'coordinates; skipped rows are tallied by reason. Non-trivial = minus strand, or >= 2 '
    'blocks, or a ciRNA with a non-zero tolerance offset; distinct by canonical JSON')
ASSUMPTIONS = [
    'intron tolerance: the offset of the fragment start from the intron start (transcript '
    'orientation) must lie in --intron-start-range; the offset of its end from the intron end '
    'in --intron-end-range, or the fragment ends before the downstream exon',
]
BUDGET = {'quick': 600, 'thorough': 15000}


@st.composite
def strategy_(draw, tier):
    d = D(draw)
    refd = refgen.gen_reference(d, n_genes=(1, 2), max_tx=2, p_nf=0.0, n_exons=(2, 5),
        intron_len=(12, 40), exon_len=(10, 40))
    ref = Ref(refd)
    v3 = d.chance(0.4)
    th = dict(min_read_number=d.choice([1, 1, 3]), start_range=d.choice([[-2, 0], [0, 0], [-3, 2]]),
        end_range=d.choice([[-100, 5], [0, 0], [-4, 3]]))
    if v3:
        th.update(min_fpb_circ=d.choice([None, 1.0]), min_circ_score=d.choice([None, 1.0]))
    rows = []
    for _ in range(d.randint(1, 5)):
        tid = d.choice(list(ref.txs))
        g, t = ref.txs[tid]
        ex = t['exons']
        row = dict(tx=tid, reads=d.choice([th['min_read_number'] - 1, th['min_read_number'], 7]))
        if v3:
            row['fpb'] = d.choice([0.5, 1.0, 3.0])
            row['score'] = d.choice([0.5, 1.0, 3.0])
        r = d.rng.random()
        if r < 0.6 or len(ex) < 2:
            i = d.randint(0, len(ex) - 1)
            j = d.randint(i, len(ex) - 1)
            blocks = [list(x) for x in ex[i:j + 1]]
            if len(blocks) >= 3 and d.chance(0.2):
                blocks.pop(d.randint(1, len(blocks) - 2))     # exon skipped inside the circle
            row.update(kind='circRNA', blocks=blocks)
            if d.chance(0.12):
                k = d.randint(0, len(blocks) - 1)
                blocks[k] = [blocks[k][0] + d.choice([1, 2]), blocks[k][1]]
                if blocks[k][1] - blocks[k][0] < 2:
                    continue
                row['unknown_exon'] = True
        else:
            i = d.randint(0, len(ex) - 2)
            a, b = ex[i][1], ex[i + 1][0]
            ds = d.choice([0, 0, -1, -2, 1, 2, -3, 3])
            de = d.choice([0, 0, -1, 3, 5, 6, -4, -5, -20])
            fs, fe = a + ds, b + de
            if g['strand'] == -1:
                # offsets are meant in transcript orientation
                fs, fe = a - de, b - ds
            if fe - fs < 4 or fs < g['start'] or fe > g['end']:
                continue
            row.update(kind='ciRNA', blocks=[[fs, fe]], intron=i, ds=ds, de=de)
        rows.append(row)
    return dict(ref=refd, rows=rows, th=th, v3=v3)


def strategy(tier):
    return strategy_(tier)


def parse_circ_gvf(path):
    out = []
    if not path.exists():
        return out
    for line in open(path):
        if line.startswith('#'):
            continue
        f = line.rstrip('\n').split('\t')
        at = dict(x.split('=', 1) for x in f[7].split(';') if '=' in x)
        start = int(f[1])
        offs = [int(x) for x in at['OFFSET'].split(',')]
        lens = [int(x) for x in at['LENGTH'].split(',')]
        out.append(dict(gene=f[0], id=f[2], tx=at['TRANSCRIPT_ID'],
            frags=[[start + o, start + o + l] for o, l in zip(offs, lens)],
            introns=[int(x) for x in at['INTRON'].split(',') if x]))
    return out


def intron_ok(g, t, row, th):
    """ does the shifted intron fragment match intron `row['intron']` within the tolerances """
    s_off, e_off = row['ds'], row['de']
    lo, hi = th['start_range']
    if not lo <= s_off <= hi:
        return False
    lo, hi = th['end_range']
    return lo <= e_off <= hi or e_off <= 0


def prop(case, ctx):
    # pylint: disable=too-many-locals,too-many-branches,too-many-statements,too-many-return-statements
    from moPepGen import cli
    out = Outcome()
    if not case['rows']:
        return out.label('no_rows')
    ref = Ref(case['ref'])
    th = case['th']
    d = ctx.fresh_dir('c17')
    write_reference(ref, d)
    lines = []
    for k, row in enumerate(case['rows']):
        g, t = ref.txs[row['tx']]
        bl = row['blocks']
        start, end = bl[0][0], bl[-1][1]
        f = [g['chrom'], str(start), str(end), f'circular_RNA/{row["reads"]}', '0',
            '+' if g['strand'] == 1 else '-', str(start), str(start), '0,0,0', str(len(bl)),
            ','.join(str(b - a) for a, b in bl), ','.join(str(a - start) for a, _ in bl),
            str(row['reads']), row['kind'], g['name'], row['tx'],
            ','.join(str(i + 1) for i in range(len(bl))), 'chr1:0-10|chr1:20-30']
        if case['v3']:
            f += [str(row['fpb']), '1.0', str(row['score'])]
        lines.append('\t'.join(f))
    (d/'circ.txt').write_text('\n'.join(lines) + '\n')
    argv = ['parseCIRCexplorer', '-i', str(d/'circ.txt'), '-o', str(d/'circ.gvf'), '--source',
        'circRNA', '-a', str(d/'anno.gtf'), '--min-read-number',
        str(th['min_read_number']), f'--intron-start-range={th["start_range"][0]},'
        f'{th["start_range"][1]}', f'--intron-end-range={th["end_range"][0]},'
        f'{th["end_range"][1]}']
    if case['v3']:
        argv.append('--circexplorer3')
        if th.get('min_fpb_circ') is not None:
            argv += ['--min-fpb-circ', str(th['min_fpb_circ'])]
        if th.get('min_circ_score') is not None:
            argv += ['--min-circ-score', str(th['min_circ_score'])]
    parser = argparse.ArgumentParser()
    sub = parser.add_subparsers(dest='command')
    cli.add_subparser_parse_circexplorer(sub)
    try:
        with contextlib.redirect_stdout(io.StringIO()), contextlib.redirect_stderr(io.StringIO()):
            args = parser.parse_args(argv)
        args.quiet = True
        with drive.quiet(capture_log=True) as h:
            import logging
            logging.getLogger('moPepGen').addHandler(h)
            args.func(args)
        log = h.lines
    except SystemExit as e:
        return out.fail(f'parseCIRCexplorer exited with {e.code} for {argv[8:]}', 'cli-exit')
    except Exception as e:     # pylint: disable=broad-except
        return out.fail(f'parseCIRCexplorer raised {type(e).__name__}: {e} '
            f'(CIRCexplorer{"3" if case["v3"] else "2"} layout, options {argv[8:]})',
            'exc:' + type(e).__name__ + (':v3' if case['v3'] else ''))
    recs = parse_circ_gvf(d/'circ.gvf')
    expected = []
    n_skip = dict(evidence=0, invalid=0)
    nontrivial = False
    for row in case['rows']:
        g, t = ref.txs[row['tx']]
        ok = row['reads'] >= th['min_read_number']
        if case['v3']:
            if th.get('min_fpb_circ') and row['fpb'] < th['min_fpb_circ']:
                ok = False
            if th.get('min_circ_score') and row['score'] < th['min_circ_score']:
                ok = False
        if not ok:
            n_skip['evidence'] += 1
            continue
        if row['kind'] == 'circRNA':
            if any(b not in t['exons'] for b in row['blocks']):
                n_skip['invalid'] += 1
                continue
        elif not intron_ok(g, t, row, th):
            n_skip['invalid'] += 1
            continue
        expected.append(row)
    if len(recs) != len(expected):
        return out.fail(f'{len(recs)} circRNA records written, {len(expected)} rows pass the '
            f'thresholds and match their transcript (rows {case["rows"]}, options {th})',
            'record-count:' + ('more' if len(recs) > len(expected) else 'fewer'),
            detail=dict(ids=[r['id'] for r in recs]))
    # records are grouped by gene; match by id
    by_id = {}
    for r in recs:
        by_id.setdefault(r['id'], []).append(r)
    for row in expected:
        g, t = ref.txs[row['tx']]
        gs, ge = g['start'], g['end']

        def to_gene(a, b):
            return [a - gs, b - gs] if g['strand'] == 1 else [ge - b, ge - a]
        frags = sorted(to_gene(a, b) for a, b in row['blocks'])
        cid = f"CIRC-{row['tx']}-{frags[0][0]}:{frags[-1][1]}"
        cand = by_id.get(cid, [])
        if not cand:
            return out.fail(f'no record with id {cid} for row {row} (ids written: '
                f'{sorted(by_id)})', 'id')
        same = [x for x in cand if sorted(x['frags']) == frags]
        r = same[0] if same else cand[0]
        cand.remove(r)
        if r['gene'] != g['id'] or r['tx'] != row['tx']:
            return out.fail(f'{cid}: gene / transcript of the record are wrong', 'attrs')
        if sorted(r['frags']) != frags:
            return out.fail(f'{cid}: fragments {r["frags"]} are not the strand-corrected blocks '
                f'{frags} (strand {g["strand"]}, blocks {row["blocks"]})',
                'fragments:' + ('minus' if g['strand'] == -1 else 'plus'))
        gseq = ref.gene_seq(g['id'])
        circ_seq = ''.join(gseq[a:b] for a, b in sorted(r['frags']))
        ch = ref.chroms[g['chrom']]
        blocks = ''.join(ch[a:b] for a, b in row['blocks'])
        direct = blocks if g['strand'] == 1 else rc(blocks)
        if circ_seq != direct:
            return out.fail(f'{cid}: circular sequence read from the gene differs from the '
                'reported blocks', 'sequence')
        exp_introns = list(range(1, len(frags) + 1)) if row['kind'] == 'ciRNA' else []
        if [x + 1 for x in r['introns']] != exp_introns and r['introns'] != exp_introns and \
                bool(r['introns']) != bool(exp_introns):
            return out.fail(f'{cid}: INTRON={r["introns"]} for a {row["kind"]} row', 'intron-flag')
        if g['strand'] == -1 or len(frags) >= 2 or (row['kind'] == 'ciRNA' and
                (row['ds'] or row['de'])):
            nontrivial = True
        out.label('ok:' + row['kind'])
    text = '\n'.join(log)
    for key, pat in (('evidence', r'[Ii]nsufficient evidence: (\d+)'),
            ('invalid', r'[Ii]nvalid record: (\d+)')):
        m = re.search(pat, text)
        if m and int(m.group(1)) != n_skip[key]:
            return out.fail(f'tally "{pat[6:-7]}" = {m.group(1)}, expected {n_skip[key]}',
                'tally:' + key)
    if n_skip['invalid']:
        out.label('skipped:no_match')
    if n_skip['evidence']:
        out.label('skipped:evidence')
    out.label('layout:' + ('v3' if case['v3'] else 'v2'))
    out.nontrivial = nontrivial
    return out
