""" C04 — output hygiene of callVariant, callNovelORF, callAltTranslation; peptide table. """
from hypothesis import strategies as st
from vf.harness import Outcome
from vf import cveval, refgen, drive, enz, cvmodel as M
from vf.model import Ref, write_reference
from vf.dr import D

ID = 'C04'
LEVEL = 'exploration'
RULE = ('generated references (+ GVF record sets for callVariant) x all cleavage rules and '
    'limit settings x the three calling commands; invariants on the written files: no '
    'sequence in the model\'s canonical pool for the same settings (incl. I->L images), '
    'length / mass limits, no X or *, each sequence once per FASTA, callVariant peptide '
    'table lists exactly the FASTA\'s (sequence, entry) pairs and each row\'s subsequence '
    'equals the stated slice of the peptide. Non-trivial = a FASTA with '
    '>= 2 records while the model\'s unfiltered candidate set contains a peptide that a '
    'filter (canonical / length / mass) removed; distinct by canonical JSON')
ASSUMPTIONS = [
    'canonical pool recomputed by the independent enzyme model (vf.enz) with the exception '
    'resolved as documented (auto -> trypsin exception for trypsin)',
    'mass threshold compared with a 1e-6 Da band',
]
BUDGET = {'quick': 150, 'thorough': 2500}


@st.composite
def strategy_(draw, tier):
    d = D(draw)
    fam = d.choice(['small', 'small', 'multi', 'multi', 'as', 'fusion', 'circ'])
    case = cveval.gen_case(d, family=fam, enzymes=cveval.ALL_ENZYMES,
        exceptions=(None, 'auto', 'trypsin_exception'),
        ref_kw=dict(utr_styles=('gencode', 'gencode', 'ensembl'), p_coding=0.8,
            n_genes=(2, 2) if fam == 'fusion' else (1, 2), max_tx=1 if fam == 'fusion' else 2))
    case['novel'] = dict(orf_assignment=d.choice(['max', 'min']), w2f=d.chance(0.4),
        coding_novel_orf=d.chance(0.3), min_tx_length=d.choice([21, 21, 60]))
    case['alt'] = d.choice([dict(sect=True, w2f=False), dict(sect=False, w2f=True),
        dict(sect=True, w2f=True)])
    return case


def strategy(tier):
    return strategy_(tier)


def simple_hygiene(peps, dups, canon_lo, p):
    bad = []
    for s in dups:
        bad.append(('duplicate-sequence', s))
    for seq in peps:
        if seq in canon_lo:
            bad.append(('canonical', seq))
        if not p['min_length'] <= len(seq) <= p['max_length']:
            bad.append(('length', seq))
        if 'X' in seq or '*' in seq:
            bad.append(('alphabet', seq))
        elif enz.mass(seq) < p['min_mw'] - enz.MASS_EPS:
            bad.append(('mass', seq))
    return bad


def prop(case, ctx):
    # pylint: disable=too-many-branches,too-many-locals
    out = Outcome()
    out.label('family:' + case['family'], 'rule:' + case['opts']['rule'])
    if case.get('planted'):
        out.label('planted:' + case['planted'])
    ref = Ref(case['ref'])
    p = M.params_of(case['opts'])
    canon_lo = M.canonical(ref, p, strict=True)
    n_out = 0
    if case['records']:
        try:
            res = cveval.run_tool(case, ctx)
        except Exception as e:     # pylint: disable=broad-except
            res = None
            out.label('callVariant_crashed')      # crashes are C01's business
        if res is not None:
            bad = cveval.check_hygiene(case, res, canon_lo)
            if bad:
                return out.fail(f'callVariant output: {bad[:3]}', 'callVariant:' + bad[0][0],
                    detail=dict(bad=bad[:10]))
            n_out = max(n_out, len(res['peps']))
    d = ctx.fresh_dir('calls')
    write_reference(ref, d)
    o = dict(case['opts'])
    o.update(case['novel'])
    try:
        peps, dups, _ = drive.call_novel_orf(d, o)
    except Exception as e:     # pylint: disable=broad-except
        return out.fail(f'callNovelORF raised {type(e).__name__}: {e}',
            'callNovelORF:' + cveval.crash_bucket(e))
    bad = simple_hygiene(peps, dups, canon_lo, p)
    if bad:
        return out.fail(f'callNovelORF output: {bad[:3]}', 'callNovelORF:' + bad[0][0])
    n_out = max(n_out, len(peps))
    if ref.coding_txs():
        o = dict(case['opts'])
        o.update(case['alt'])
        try:
            peps2, dups2 = drive.call_alt_translation(d, o)
        except Exception as e:     # pylint: disable=broad-except
            return out.fail(f'callAltTranslation raised {type(e).__name__}: {e}',
                'callAltTranslation:' + cveval.crash_bucket(e))
        bad = simple_hygiene(peps2, dups2, canon_lo, p)
        if bad:
            return out.fail(f'callAltTranslation output: {bad[:3]}',
                'callAltTranslation:' + bad[0][0])
        n_out = max(n_out, len(peps2))
        if peps2:
            out.label('alt_nonempty')
    # non-triviality: some candidate was removed by a filter
    removed = False
    wide = dict(p, min_length=1, max_length=100, min_mw=0.)
    for tid in ref.txs:
        t = ref.tx(tid)
        cands = M.linear_products(ref, tid, [], wide, dict(case['opts']), 'U', strict=False,
            novel=True)
        if any((c in canon_lo) or not enz.keep(c, p, True) for c in cands):
            removed = True
            break
    out.nontrivial = n_out >= 2 and removed
    if peps:
        out.label('novel_nonempty')
    return out
