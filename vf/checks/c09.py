""" C09 — callAltTranslation equals the definitional alt-translation digest. """
from hypothesis import strategies as st
from vf.harness import Outcome
from vf import cveval, refgen, drive, enz, cvmodel as M
from vf.model import Ref, write_reference
from vf.dr import D

ID = 'C09'
LEVEL = 'exploration'
RULE = ('generated references with coding transcripts (0-3 annotated Sec codons, W-rich '
    'patches, cds_start_NF, mRNA_end_NF, multi-isoform genes, both strands, non-coding '
    'transcripts as decoys) x cleavage rule / limits x {SECT, W2F, both}; oracle: set '
    'equality with the model: products of the annotated ORF translation (U at Sec) that '
    'arise only by stopping at a Sec codon and / or by replacing a non-empty subset of W by F, '
    'minus plain products, minus the model canonical pool; every header entry must name a '
    'coding transcript and SECT-<gene position> / W2F-<residue> events which, applied alone '
    'to the annotated translation, reproduce the peptide. Non-trivial = the output holds '
    'both a SECT-derived and a W2F-derived peptide, or the transcript has >= 2 Sec codons '
    'and a SECT peptide; distinct by canonical JSON')
ASSUMPTIONS = [
    'annotated translation = CDS from its start (cds_start_NF: no Met-removed twin; '
    'mRNA_end_NF: the product touching the open 3\' end is not demanded, only permitted)',
    'canonical pool and digestion by the independent enzyme model (vf.enz), validated by C10',
]
BUDGET = {'quick': 1500, 'thorough': 25000}
STRICT = [e for e in enz.ENZYMES if e not in cveval.PEPSINS] + ['trypsin'] * 8


@st.composite
def strategy_(draw, tier):
    d = D(draw)
    refd = refgen.gen_reference(d, n_genes=(1, 2), max_tx=d.choice([1, 2]), p_coding=0.85,
        p_nf=0.15, p_sec=0.7, exon_len=(12, 80))
    wild = tier == 'thorough' and d.chance(0.4)
    opts = cveval.gen_opts(d, cveval.ALL_ENZYMES if wild else STRICT, alt=False, limits=True,
        exceptions=(None, None, 'auto', 'trypsin_exception'))
    flags = d.choice([(True, False), (False, True), (True, True)])
    opts['sect'], opts['w2f'] = flags
    return dict(ref=refd, opts=opts, records=[])


def strategy(tier):
    return strategy_(tier)


def tolerated(case):
    o = case['opts']
    if o['rule'] in cveval.PEPSINS:
        return 'CV-pepsin'
    return None


def tx_sets(ref:Ref, tid, p, o):
    """ (L, U, plain, sect_info, tail) for one coding transcript, combined over the readings
    of the N-terminal cleavage context (see readings()): L = certain under every reading,
    U / plain / sect_info = possible under any """
    res = None
    for site_list in readings(ref, tid, p):
        cur = tx_sets_one(ref, tid, p, o, site_list)
        if res is None:
            res = cur
            continue
        sect = {k: res[3].get(k, set()) | cur[3].get(k, set()) for k in set(res[3]) | set(cur[3])}
        res = (res[0] & cur[0], res[1] | cur[1], res[2] | cur[2], sect, res[4] | cur[4])
    return res


def readings(ref:Ref, tid, p):
    """ cleavage-site lists of the annotated translation: read in isolation (None) and read
    in the context of the in-frame translation of the 5' UTR, which is what the graph sees
    (rules with a look-behind of several residues: caspases, thrombin, ...) """
    t = ref.tx(tid)
    s = t['cds'][0]
    seq = ref.tx_seq(tid)
    prot = ref.protein(tid)
    k = prot.find('*')
    if k >= 0:
        prot = prot[:k]
    from vf.model import translate
    up = translate(seq[s % 3:s])
    closed = translate(seq[s:]).find('*') >= 0
    return enz.context_site_lists(prot, [up[up.rfind('*') + 1:], up], ['*'] if closed else [],
        p['rule'], p.get('exception'))


def tx_sets_one(ref:Ref, tid, p, o, site_list):
    """ (L, U, plain, sect_info, tail) for one coding transcript under one reading.
    sect_info: {gene position + 1 of the Sec codon: set of products of the translation
    truncated there}; tail: the part of L that stops at a Sec codon inside the last
    digestion segment of an mRNA_end_NF transcript (open finding C09-sect-open-tail) """
    t = ref.tx(tid)
    prot = ref.protein(tid)
    nf_start = 'cds_start_NF' in t.get('tags', [])
    nf_end = 'mRNA_end_NF' in t.get('tags', [])
    k = prot.find('*')
    if k >= 0:
        prot = prot[:k]
    all_sites = site_list if site_list is not None else \
        enz.sites(prot, p['rule'], p.get('exception'))

    def dig(s, strict, closed, spans=False):
        sl = [x for x in all_sites if x < len(s)]
        res = enz.digest(s, p, m_removal=not nf_start, strict=strict, closed=closed,
            site_list=sl, spans=spans)
        if nf_start and not strict and s.startswith('M'):
            # a cds_start_NF translation that happens to begin with M: the tool also reports
            # the Met-removed twin; permitted, not demanded
            res |= enz.digest(s, p, m_removal=True, strict=False, closed=closed, site_list=sl,
                spans=spans)
        return res
    plain_hi = dig(prot, False, True)
    plain_lo = dig(prot, True, not nf_end)
    L, U = set(), set()
    sect_info = {}
    tg = ref.tx_gene(tid)
    # W>F forms are only derived from products the tool reports: with an open 3' end
    # (mRNA_end_NF) the product touching it is never reported, nor are its W>F forms
    plain_rep = dig(prot, False, not nf_end)
    base_lo, base_hi = set(plain_lo), set(plain_rep)
    tail = set()
    last_site = max([0] + [x for x in all_sites if x < len(prot)])
    for c in t.get('secs', []):
        i = (c - t['cds'][0]) // 3
        if i >= len(prot) or prot[i] != 'U':
            continue
        hi = dig(prot[:i], False, True)
        sect_info[tg[c] + 1] = hi
        if o.get('sect'):
            lo = dig(prot[:i], True, True)
            L |= lo
            U |= hi
            base_lo |= lo
            base_hi |= hi
            if nf_end and i > last_site:
                tail |= {x for (_, e, x) in dig(prot[:i], True, True, spans=True) if e == i}
    if o.get('w2f'):
        for pep in base_lo:
            if 'W' in pep:
                forms = {f for f in M.w2f_forms(pep) if enz.keep(f, p, True)}
                L |= forms
                if pep in tail:
                    tail |= forms
        for pep in base_hi:
            if 'W' in pep:
                U |= {f for f in M.w2f_forms(pep) if enz.keep(f, p, False)}
    # "arise only through": plain products are not alt-translation peptides. With an open 3'
    # end the tool may or may not report the last plain product, so only what is certainly
    # plain is removed from U and everything possibly plain from L
    return L - plain_hi, U - plain_lo, plain_rep, sect_info, tail


def prop(case, ctx):
    # pylint: disable=too-many-locals,too-many-branches,too-many-statements
    out = Outcome()
    o = case['opts']
    out.label('rule:' + o['rule'], 'flags:' + ('S' if o['sect'] else '') + ('W' if o['w2f']
        else ''))
    ref = Ref(case['ref'])
    coding = ref.coding_txs()
    if not coding:
        return out.label('no_coding_tx')
    p = M.params_of(o)
    d = ctx.fresh_dir('alt')
    write_reference(ref, d)
    try:
        peps, dups = drive.call_alt_translation(d, o)
    except Exception as e:     # pylint: disable=broad-except
        return out.fail(f'callAltTranslation raised {type(e).__name__}: {e}',
            cveval.crash_bucket(e))
    canon_hi = M.canonical(ref, p, strict=False)
    canon_lo = M.canonical(ref, p, strict=True)
    L, U = set(), set()
    per_tx = {}
    tail = set()
    for tid in coding:
        l, u, plain, sect_info, tl = tx_sets(ref, tid, p, o)
        per_tx[tid] = (plain, sect_info)
        L |= l
        U |= u
        tail |= tl
    L -= canon_hi
    U -= canon_lo
    got = set(peps)
    missing, extra = L - got, got - U
    if missing and missing <= tail:
        # open finding: SECT peptides ending inside the last digestion segment of an
        # mRNA_end_NF transcript are not reported
        out.known.append('C09-sect-open-tail')
        out.detail = dict(missing=sorted(missing)[:5])
        missing = set()
    if (missing or extra) and tolerated(case):
        out.known.append(tolerated(case))
        out.detail = dict(missing=sorted(missing)[:5], extra=sorted(extra)[:5])
        return out
    if missing:
        return out.fail(f'{len(missing)} definitional alt-translation peptide(s) missing, e.g. '
            f'{sorted(missing)[:4]} (reported {len(got)}, expected >= {len(L)})',
            'missing:' + o['rule'], detail=dict(missing=sorted(missing)[:10]))
    if extra:
        return out.fail(f'{len(extra)} reported peptide(s) are not alt-translation products, '
            f'e.g. {[(s, peps[s]) for s in sorted(extra)[:3]]}', 'extra:' + o['rule'],
            detail=dict(extra=sorted(extra)[:10]))
    if dups:
        return out.fail(f'sequence written twice: {dups[:3]}', 'duplicate')
    # headers: the named events alone reproduce the peptide
    has_sect = has_w2f = False
    for seq, hdr in peps.items():
        for e in cveval.parse_header(hdr):
            tid = e['backbone']
            if tid not in per_tx:
                return out.fail(f'{seq}: entry {e["entry"]} does not name a coding transcript',
                    'header-backbone')
            plain, sect_info = per_tx[tid]
            base = list(seq)
            sect = []
            for x in e['ids']:
                if x.startswith('W2F-'):
                    k = int(x[4:]) - 1
                    if not 0 <= k < len(base) or base[k] != 'F':
                        return out.fail(f'{seq}: entry {e["entry"]} names {x} but residue '
                            f'{k + 1} is not F', 'header-w2f')
                    base[k] = 'W'
                    has_w2f = True
                elif x.startswith('SECT-'):
                    sect.append(int(x[5:]))
                    has_sect = True
                else:
                    return out.fail(f'{seq}: entry {e["entry"]} names {x}, neither a SECT nor '
                        'a W2F event', 'header-id')
            if not e['ids']:
                return out.fail(f'{seq}: entry {e["entry"]} names no SECT / W2F event',
                    'header-empty')
            if any(x.startswith('W2F-') for x in e['ids']) and not o['w2f'] or \
                    sect and not o['sect']:
                return out.fail(f'{seq}: entry {e["entry"]} names an event whose flag is off',
                    'header-flag')
            base = ''.join(base)
            if len(sect) > 1:
                return out.fail(f'{seq}: entry {e["entry"]} names two SECT events',
                    'header-two-sect')
            if sect:
                if sect[0] not in sect_info:
                    return out.fail(f'{seq}: entry {e["entry"]}: no annotated Sec codon at gene '
                        f'position {sect[0]} of {tid}', 'header-sect-pos')
                ok = base in sect_info[sect[0]]
            else:
                ok = base in plain
            if not ok:
                return out.fail(f'{seq}: applying exactly the events of entry {e["entry"]} to '
                    f'the annotated translation of {tid} does not give the peptide',
                    'header-witness', detail=dict(seq=seq, header=hdr))
    n_sec = max(len(ref.tx(t).get('secs', [])) for t in coding)
    out.nontrivial = (has_sect and has_w2f) or (n_sec >= 2 and has_sect)
    out.label(*[x for x in refgen.describe(case['ref']) if x.startswith(('strand', 'tag:'))])
    if got:
        out.label('output_nonempty')
    if has_sect:
        out.label('sect_peptide')
    if has_w2f:
        out.label('w2f_peptide')
    out.label(f'n_sec:{min(n_sec, 3)}')
    return out
