""" C07 — --skip-failed isolates failures of processing units; without it failures abort.
Fault enumeration: every subset of units of a generated input is made to fail through the
guarded hook in moPepGen/cli/call_variant_peptide.py (MOPEPGEN_VERIF_FAIL). """
import os
import itertools
from hypothesis import strategies as st
from vf.harness import Outcome
from vf import cveval, refgen, vargen, drive
from vf.model import Ref, write_reference
from vf.dr import D

ID = 'C07'
LEVEL = 'fault_enumeration'
RULE = ('generated inputs with 2-5 processing units (main call of a transcript, each fusion, '
    'each circRNA) on 1-3 transcripts; for each input ALL 2^n subsets F of units are made to '
    'fail at the entry of the per-unit caller (guarded hook), in-process with threads=1, plus '
    'generated subsets through the console entry point with --threads 3 (pathos workers). '
    'Oracle: with --skip-failed the run completes, the failure tally equals the number of '
    'transcripts with a failed main / fusion / circRNA unit, no header entry names a failed '
    'fusion / circRNA, and the sequence set equals the union of the outputs of the surviving '
    'units each run alone (all other units failing) - so a failure never removes or alters '
    'peptides of another unit; the fault-free run equals the union over all units and the '
    'run without the flag. Without --skip-failed any non-empty F must raise / exit non-zero '
    'and leave no FASTA at the output path. Non-trivial (counted per input) = an input with a '
    'fault set that is neither empty nor everything whose surviving units yield >= 1 peptide '
    'and whose failed units yield >= 1 peptide when alone; distinct by canonical JSON')
ASSUMPTIONS = [
    'faults are injected at the entry of call_peptide_main / call_peptide_fusion / '
    'call_peptide_circ_rna (RuntimeError); failures deeper inside a unit are not enumerated',
    'the per-unit outputs used as reference are themselves measured on the tool (all other '
    'units failing); the anchor is the fault-free run without --skip-failed',
]
BUDGET = {'quick': 4, 'thorough': 40}
WALL = {'quick': 900, 'thorough': 3 * 3600}
# up to 2^5 + 6 tool runs per case, normally under a minute of CPU; an input on which the tool
# itself needs minutes per run is abandoned (inconclusive)
CASE_LIMIT = {'quick': 150, 'thorough': 3000}
EXHAUSTIVE_NOTE = {'quick': 'all 2^n fault subsets of every generated input (n <= 5)',
    'thorough': 'all 2^n fault subsets of every generated input (n <= 5)'}


@st.composite
def strategy_(draw, tier):
    d = D(draw)
    refd = refgen.gen_reference(d, n_genes=(2, 3), max_tx=1, p_nf=0.0, n_exons=(1, 3),
        utr_styles=('gencode',))
    ref = Ref(refd)
    tids = list(ref.txs)
    records = []
    n_units = 0
    for tid in d.shuffle(tids):
        if n_units >= 4:
            break
        if d.chance(0.85):
            sm = vargen.gen_small(d, ref, tid, d.randint(1, 3), spread=25)
            if sm:
                records += sm
                n_units += 1
        for _ in range(d.choice([0, 0, 1, 1, 2])):
            if n_units >= 5:
                break
            c = vargen.gen_circ(d, ref, tid)
            if all(c['id'] != r.get('id') for r in records):
                records.append(c)
                n_units += 1
        for _ in range(d.choice([0, 1, 1, 2])):
            if n_units >= 5 or len(tids) < 2:
                break
            other = d.choice([t for t in tids if t != tid])
            f = vargen.gen_fusion(d, ref, tid, other)
            if f and all(f['id'] != r.get('id') for r in records):
                records.append(f)
                n_units += 1
    # an indel anchored on the last base of the start codon of a fusion donor: the units of a
    # transcript share their record objects, and this record is rewritten in place by the
    # first unit that meets it
    for tid in sorted({r['tx'] for r in records if r['kind'] == 'fusion'}):
        t = ref.tx(tid)
        if not t.get('cds') or 'cds_start_NF' in t.get('tags', []) or not d.chance(0.3):
            continue
        tg = ref.tx_gene(tid)
        p0 = t['cds'][0] + 2
        if p0 + 4 >= len(tg) or any(tg[p0 + k] != tg[p0] + k for k in range(1, 5)):
            continue
        gseq = ref.gene_seq(ref.gene_of(tid)['id'])
        g0 = tg[p0]
        if d.chance(0.6):
            rec = dict(kind='small', tx=tid, g=g0, ref=gseq[g0], alt=gseq[g0] + d.bases(
                d.choice([3, 3, 6, 1, 2])))
        else:
            k = d.choice([3, 3, 1, 2])
            rec = dict(kind='small', tx=tid, g=g0, ref=gseq[g0:g0 + k + 1], alt=gseq[g0])
        records = [r for r in records if not (r['kind'] == 'small' and r['tx'] == tid and
            r['g'] < g0 + len(rec['ref']) + 1 and g0 < r['g'] + len(r['ref']) + 1)]
        records.append(rec)
    # a transcript that is read but not dispatched (intronic records only): with --threads N it
    # takes a place in the loop over transcripts without joining a batch
    skipped = []
    idle = [t for t in tids if all(r['tx'] != t for r in records) and
        len(ref.exons_gene(t)) >= 2]
    if idle and d.chance(0.5):
        from vf.checks.c06 import intronic_records
        tid = d.choice(idle)
        extra = intronic_records(d, ref, tid, d.randint(1, 2))
        if extra:
            records += extra
            skipped.append(tid)
    opts = cveval.gen_opts(d, cveval.STRICT_ENZYMES, alt=True, limits=False)
    opts['min_length'] = 5
    # the console entry point cannot switch the cleavage exception off (its default is 'auto'):
    # in-process and console runs are compared, so both use 'auto'
    opts['exception'] = 'auto'
    # the tool's default: with --skip-failed a per-transcript timeout is swallowed as a failed
    # unit, so a short limit on a loaded machine looks like an extra fault
    opts['timeout_seconds'] = 1800
    return dict(ref=refd, records=records, opts=opts, skipped=skipped,
        threads_mask=d.randint(1, 62),
        order=d.randint(0, 10 ** 6))


def strategy(tier):
    return strategy_(tier)


def units_of(case, ref):
    """ processing units in the tool's sense: main:<tx> for a transcript with >= 1 usable
    transcriptional record, fusion:<id>, circ:<id> """
    units = []
    by_tx = {}
    for r in case['records']:
        by_tx.setdefault(r['tx'], []).append(r)
    for tid, recs in by_tx.items():
        if tid in case.get('skipped', []):
            continue
        if any(r['kind'] in ('small', 'as') for r in recs):
            units.append(('main', tid, tid))
        for r in recs:
            if r['kind'] == 'fusion':
                units.append(('fusion', r['id'], tid))
            elif r['kind'] == 'circ':
                units.append(('circ', r['id'], tid))
    return units


def run(case, ctx, d, paths, fail, skip_failed, capture=True):
    os.environ['MOPEPGEN_VERIF'] = '1'
    os.environ['MOPEPGEN_VERIF_FAIL'] = ','.join(f'{k}:{i}' for k, i, _ in fail)
    try:
        return drive.call_variant(d, paths, dict(case['opts'], skip_failed=skip_failed),
            capture_log=capture)
    finally:
        os.environ['MOPEPGEN_VERIF_FAIL'] = ''


def parse_tally(log):
    """ {'variant': n, 'fusion': n, 'circRNA': n} from the summary block of the log """
    import re
    out = {}
    for line in log:
        for key, pat in (('variant', r'Variant peptides: (\d+)'),
                ('fusion', r'Fusion peptides: (\d+)'), ('circRNA', r'circRNA peptides: (\d+)')):
            m = re.search(pat, line)
            if m:
                out[key] = int(m.group(1))
    return out


def prop(case, ctx):
    # pylint: disable=too-many-locals,too-many-branches,too-many-statements,too-many-return-statements
    out = Outcome()
    out.label('rule:' + case['opts']['rule'])
    ref = Ref(case['ref'])
    units = units_of(case, ref)
    n = len(units)
    out.label(f'units:{n}')
    if n < 2:
        return out.label('too_few_units')
    if n > 5:
        units = units[:5]
        n = 5
    d = ctx.fresh_dir('c07')
    write_reference(ref, d)
    paths = vargen.write_gvfs(ref, case['records'], d)
    # anchor: no fault, no flag
    try:
        full, _, _ = run(case, ctx, d, paths, [], False)
    except Exception as e:     # pylint: disable=broad-except
        out.inconclusive = 'fault_free_run_crashed:' + cveval.crash_bucket(e)
        return out
    full = set(full)
    alone = {}
    results = {}
    for k in range(0, n + 1):
        for F in itertools.combinations(range(n), k):
            fail = [units[i] for i in F]
            try:
                peps, _, log = run(case, ctx, d, paths, fail, True)
            except Exception as e:     # pylint: disable=broad-except
                if not fail:
                    out.inconclusive = 'crash_without_fault'
                    return out
                return out.fail(f'--skip-failed with failing units {[f"{a}:{b}" for a, b, _ in fail]}'
                    f' aborted: {type(e).__name__}: {e}',
                    'skip-failed-aborts:' + '+'.join(sorted({a for a, _, _ in fail})),
                    detail=dict(fail=[f'{a}:{b}' for a, b, _ in fail]))
            results[F] = (peps, log)
            if len(F) == n - 1:
                alive = [i for i in range(n) if i not in F][0]
                alone[alive] = set(peps)
    # composition
    for F, (peps, log) in results.items():
        fail = [units[i] for i in F]
        names = [f'{a}:{b}' for a, b, _ in fail]
        # units beyond the enumeration cap never fail: their output is part of every run
        expect = set(results[tuple(range(n))][0])
        for i in range(n):
            if i not in F:
                expect |= alone[i]
        got = set(peps)
        if got != expect:
            return out.fail(f'--skip-failed with failing units {names}: output differs from the '
                f'union of the surviving units run alone: {len(expect - got)} missing e.g. '
                f'{sorted(expect - got)[:3]}, {len(got - expect)} extra e.g. '
                f'{[(s, peps[s]) for s in sorted(got - expect)[:3]]}',
                'isolation:' + '+'.join(sorted({a for a, _, _ in fail})),
                detail=dict(fail=names))
        failed_ids = {b for a, b, _ in fail if a in ('fusion', 'circ')}
        for s, hdr in peps.items():
            for e in cveval.parse_header(hdr):
                if e['backbone'] in failed_ids:
                    return out.fail(f'failing units {names}: {s} still carries an entry of the '
                        f'failed unit: {e["entry"]}', 'entry-of-failed-unit')
        # tally
        exp_tally = dict(variant=len({t for a, _, t in fail if a == 'main'}),
            fusion=len({t for a, _, t in fail if a == 'fusion'}),
            circRNA=len({t for a, _, t in fail if a == 'circ'}))
        tl = parse_tally(log)
        if tl and any(tl.get(k2, 0) != v for k2, v in exp_tally.items()):
            return out.fail(f'failing units {names}: failure tally {tl} != expected '
                f'{exp_tally}', 'tally', detail=dict(fail=names, log=log[-12:]))
        if not tl:
            out.label('tally_not_parsed')
    if set(results[()][0]) != full:
        return out.fail('the fault-free run with --skip-failed differs from the run without it',
            'flag-changes-output')
    # without the flag: must abort and leave no FASTA
    import random
    rng = random.Random(case['order'])
    for F in rng.sample([f for f in results if f], min(3, 2 ** n - 1)):
        fail = [units[i] for i in F]
        names = [f'{a}:{b}' for a, b, _ in fail]
        try:
            run(case, ctx, d, paths, fail, False, capture=False)
        except Exception:     # pylint: disable=broad-except
            if (d/'out.fasta').exists():
                return out.fail(f'failing units {names} without --skip-failed: the command '
                    'raised but left a FASTA at the output path', 'fasta-after-abort')
        else:
            return out.fail(f'failing units {names} without --skip-failed: the command '
                'completed without an error', 'no-abort')
    # threads=3 through the console entry point
    if ctx.tier == 'thorough' or case['order'] % 3 == 0 or case.get('skipped'):
        F = tuple(i for i in range(n) if case['threads_mask'] >> i & 1)
        if F and len(F) < n:
            fail = [units[i] for i in F]
            names = [f'{a}:{b}' for a, b, _ in fail]
            env = dict(MOPEPGEN_VERIF='1', MOPEPGEN_VERIF_FAIL=','.join(names))
            rc, peps, _, err, _ = drive.call_variant_cli(d, paths, dict(case['opts'],
                skip_failed=True, threads=3, env=env), out_name='t3.fasta')
            if rc != 0:
                return out.fail(f'--threads 3 --skip-failed with failing units {names}: exit '
                    f'status {rc}: {err[-300:]}', 'threads-skip-failed-aborts')
            if set(peps) != set(results[F][0]):
                return out.fail(f'--threads 3 --skip-failed with failing units {names}: output '
                    f'differs from the threads=1 run: {sorted(set(peps) ^ set(results[F][0]))[:4]}',
                    'threads-isolation')
            rc, peps, _, err, exists = drive.call_variant_cli(d, paths, dict(case['opts'],
                skip_failed=False, threads=3, env=env), out_name='t3.fasta')
            if rc == 0 or exists:
                return out.fail(f'--threads 3 without --skip-failed, failing units {names}: exit '
                    f'status {rc}, FASTA written: {exists}', 'threads-no-abort')
            out.label('threads3')
            if case.get('skipped'):
                out.label('threads3_with_skipped_transcript')
    nt = False
    for F in results:
        if 0 < len(F) < n:
            alive = set().union(*[alone[i] for i in range(n) if i not in F])
            dead = set().union(*[alone[i] for i in F])
            if alive and dead:
                nt = True
                break
    out.nontrivial = nt
    out.label(f'fault_sets:{len(results)}')
    for a in sorted({a for a, _, _ in units}):
        out.label('unit:' + a)
    return out
