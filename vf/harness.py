""" Shared harness: sharded Hypothesis runs, exhaustive enumerations, pinned
replays, known findings, evidence files, VIOLATION / KNOWN-FINDING lines.

A check module (vf/checks/cXX.py) provides

    ID, LEVEL, RULE, ASSUMPTIONS, BUDGET = {'quick': n, 'thorough': n}
    strategy(tier)            -> hypothesis strategy producing JSON-able case dicts
    prop(case, ctx)           -> Outcome
    exhaustive(tier)          -> optional iterable of cases (enumerated, not sampled)
    setup(tier)               -> optional, called once in the parent before forking

Exit status: 0 property held on everything explored, 1 violation, 2 harness error.
"""
from __future__ import annotations
import os
import sys
import json
import time
import glob
import shutil
import hashlib
import tempfile
import traceback
import importlib
import multiprocessing as mp
from collections import Counter
from pathlib import Path

VERIF = Path(__file__).resolve().parent.parent
REPO = Path(os.environ.get('VERIF_REPO', '/repo'))
NSHARDS = int(os.environ.get('VERIF_SHARDS', str(min(16, os.cpu_count() or 1))))


class Outcome:
    """ Verdict of the property on one case. """
    def __init__(self):
        self.nontrivial = False
        self.labels = []          # classification labels (strings)
        self.violation = None     # message when the property is violated
        self.bucket = None        # root-cause key for de-duplication
        self.known = []           # ids of open known findings this case exhibits
        self.inconclusive = None  # reason, e.g. tool timeout
        self.detail = None        # JSON-able extra info for replays

    def label(self, *names):
        self.labels.extend(names)
        return self

    def fail(self, msg, bucket=None, detail=None):
        if self.violation is None:
            self.violation = msg
            self.bucket = bucket or msg[:60]
            self.detail = detail
        return self


class Ctx:
    """ Per-shard context handed to prop(). """
    def __init__(self, workdir:Path, tier:str, shard:int=0):
        self.workdir = Path(workdir)
        self.tier = tier
        self.shard = shard
        self._n = 0

    def fresh_dir(self, name='case') -> Path:
        """ an empty directory, reused between cases """
        d = self.workdir/name
        if d.exists():
            shutil.rmtree(d)
        d.mkdir(parents=True)
        return d


def canon(case) -> str:
    return json.dumps(case, sort_keys=True, separators=(',', ':'), default=str)


def case_hash(case) -> str:
    return hashlib.md5(canon(case).encode()).hexdigest()[:16]


def trim(obj, maxlen=160, maxitems=12):
    """ shorten long strings / lists for evidence samples """
    if isinstance(obj, str):
        return obj if len(obj) <= maxlen else obj[:maxlen] + f'...(+{len(obj) - maxlen})'
    if isinstance(obj, dict):
        return {k: trim(v, maxlen, maxitems) for k, v in list(obj.items())[:40]}
    if isinstance(obj, (list, tuple)):
        out = [trim(v, maxlen, maxitems) for v in obj[:maxitems]]
        if len(obj) > maxitems:
            out.append(f'...(+{len(obj) - maxitems} items)')
        return out
    return obj


def load_known_findings(prop_id):
    path = VERIF/'known_findings.json'
    if not path.exists():
        return [], []
    data = json.loads(path.read_text())
    def applies(x):
        return x.get('property') == prop_id or prop_id in x.get('properties', [])
    opened = [x for x in data.get('open', []) if applies(x)]
    fixed = [x for x in data.get('fixed', []) if applies(x)]
    return opened, fixed


CAPPED = set()     # ids of open findings with a per-run cap (filled by run_check)


class ShardStats:
    def __init__(self):
        self.evaluations = 0
        self.nontrivial = set()
        self.labels = Counter()
        self.known = Counter()
        self.inconclusive = Counter()
        self.samples = []
        self.skipped_budget = 0
        self.exhaustive_done = 0
        self.violations = []      # list of dicts(bucket,msg,case,detail)
        self.errors = []
        self.capped_cases = []    # cases counted under a rate-capped open finding

    def add(self, case, out:Outcome, keep_sample=True):
        self.evaluations += 1
        for l in out.labels:
            self.labels[l] += 1
        for k in sorted(set(out.known)):      # findings are counted once per case
            self.known[k] += 1
            if k in CAPPED and len(self.capped_cases) < 8:
                self.capped_cases.append(dict(finding=k, case=case, note=out.detail))
            if os.environ.get('VERIF_WITNESS'):     # harvest witnesses of open findings
                wdir = Path(os.environ['VERIF_WITNESS'])
                wdir.mkdir(parents=True, exist_ok=True)
                fn = wdir/f'{k}-{os.getpid()}.json'
                if not fn.exists() or len(canon(case)) < len(canon(json.loads(
                        fn.read_text())['case'])):
                    fn.write_text(json.dumps(dict(finding=k, case=case), default=str))
        if out.inconclusive:
            self.inconclusive[out.inconclusive] += 1
        if out.nontrivial:
            h = case_hash(case)
            if h not in self.nontrivial:
                self.nontrivial.add(h)
                if keep_sample and len(self.samples) < 2:
                    self.samples.append(trim(case))

    def dump(self, path):
        data = dict(evaluations=self.evaluations, nontrivial=sorted(self.nontrivial),
            labels=dict(self.labels), known=dict(self.known),
            inconclusive=dict(self.inconclusive), samples=self.samples,
            skipped_budget=self.skipped_budget, exhaustive_done=self.exhaustive_done,
            violations=self.violations, errors=self.errors, capped_cases=self.capped_cases)
        tmp = str(path) + '.tmp'
        with open(tmp, 'w') as fh:
            json.dump(data, fh, default=str)
        os.replace(tmp, path)


class _CaseHang(BaseException):
    pass


_GUARD = {'fired': False}


def _on_case_alarm(*_):
    _GUARD['fired'] = True
    raise _CaseHang()


CASE_LIMIT_S = {'quick': 600, 'thorough': 1800}     # CPU seconds; a case needs seconds


def _eval(mod, case, ctx, open_ids):
    """ run prop; classify known findings not registered as violations. A case that uses more
    than CASE_LIMIT_S of CPU time (the code under test runs in this process and may loop) is
    abandoned and counted inconclusive: a time limit is never a violation. The code under test
    may swallow the exception that the timer raises (callVariant --skip-failed catches
    everything and calls it a failed unit), so whatever prop returns after the timer has fired
    is discarded as well """
    import signal
    # a CPU-time timer (SIGVTALRM): the tool under test installs its own SIGALRM handler for
    # --timeout-seconds and cancels pending alarms, so the real-time alarm cannot be shared
    prev = signal.signal(signal.SIGVTALRM, _on_case_alarm)
    limit = getattr(mod, 'CASE_LIMIT', CASE_LIMIT_S)[getattr(ctx, 'tier', 'quick')]
    _GUARD['fired'] = False
    # periodic after the first expiry: the exception may be swallowed on its way out
    signal.setitimer(signal.ITIMER_VIRTUAL, limit, 20)
    try:
        out = mod.prop(case, ctx)
    except _CaseHang:
        out = Outcome()
    finally:
        signal.setitimer(signal.ITIMER_VIRTUAL, 0)
        signal.signal(signal.SIGVTALRM, prev)
    if _GUARD['fired']:
        out = Outcome()
        out.inconclusive = 'case_abandoned_after_%ds_cpu' % limit
    if out.violation is None:
        unregistered = [k for k in out.known if k not in open_ids]
        if unregistered:
            out.fail(f'discrepancy with signature {unregistered[0]} which is not an open '
                'known finding', bucket='unregistered:' + unregistered[0])
    return out


def _shard_main(mod_name, tier, seed, shard, nshards, rundir, deadline):
    # pylint: disable=too-many-locals,too-many-statements
    import warnings
    warnings.filterwarnings('ignore')
    rundir = Path(rundir)
    os.environ['VF_SALT'] = str(seed * 1000 + shard)
    stats = ShardStats()
    result_path = rundir/f'shard-{shard}.json'
    fail_path = rundir/f'shard-{shard}.fail.json'
    ckpt_path = rundir/f'shard-{shard}.ckpt.json'
    try:
        mod = importlib.import_module(mod_name)
        ctx = Ctx(rundir/f'w{shard}', tier, shard)
        ctx.workdir.mkdir(parents=True, exist_ok=True)
        opened, _ = load_known_findings(mod.ID)
        open_ids = {x['id'] for x in opened}

        def record_failure(case, out, source):
            cur = dict(bucket=out.bucket, msg=out.violation, case=case, detail=out.detail,
                source=source, size=len(canon(case)))
            best = None
            if fail_path.exists():
                try:
                    best = json.loads(fail_path.read_text())
                except ValueError:
                    best = None
            if best is None or cur['size'] <= best.get('size', 1 << 60):
                tmp = str(fail_path) + '.tmp'
                with open(tmp, 'w') as fh:
                    json.dump(cur, fh, default=str)
                os.replace(tmp, fail_path)

        # 1. exhaustive enumeration (split round-robin)
        if hasattr(mod, 'exhaustive'):
            for i, case in enumerate(mod.exhaustive(tier)):
                if i % nshards != shard:
                    continue
                if time.time() > deadline:
                    stats.skipped_budget += 1
                    continue
                out = _eval(mod, case, ctx, open_ids)
                stats.add(case, out)
                stats.exhaustive_done += 1
                if out.violation:
                    stats.violations.append(dict(bucket=out.bucket, msg=out.violation,
                        case=case, detail=out.detail, source='exhaustive'))
                if stats.exhaustive_done % 200 == 0:
                    stats.dump(ckpt_path)
                    if len(stats.violations) >= 3:
                        break

        # 2. generated search
        n_examples = mod.BUDGET[tier]
        if isinstance(n_examples, dict):
            n_examples = n_examples.get('examples', 0)
        if n_examples and hasattr(mod, 'strategy'):
            import hypothesis
            from hypothesis import given, settings, HealthCheck, Phase
            state = {'failed': False, 'ckpt': time.time()}

            @hypothesis.seed(seed * 1000 + shard)
            @settings(max_examples=n_examples, database=None, deadline=None,
                derandomize=False, report_multiple_bugs=False,
                suppress_health_check=list(HealthCheck),
                phases=[Phase.generate, Phase.shrink])
            @given(mod.strategy(tier))
            def run(case):
                if not state['failed'] and time.time() > deadline:
                    stats.skipped_budget += 1
                    return
                out = _eval(mod, case, ctx, open_ids)
                if not state['failed']:
                    stats.add(case, out)
                    if time.time() - state['ckpt'] > 10:
                        # checkpoint: a shard stopped at the wall-clock limit in the middle of
                        # a slow case loses that case only (counted inconclusive)
                        state['ckpt'] = time.time()
                        stats.dump(ckpt_path)
                if out.violation and os.environ.get('VERIF_COLLECT'):
                    # calibration mode: bucket every discrepancy, never stop
                    key = out.bucket
                    stats.labels['COLLECT:' + str(key)] += 1
                    cdir = Path(os.environ['VERIF_COLLECT'])
                    cdir.mkdir(parents=True, exist_ok=True)
                    fn = cdir/(''.join(c if c.isalnum() else '_' for c in str(key))[:80]
                        + f'-{shard}.json')
                    if not fn.exists() or len(canon(case)) < len(fn.read_text()) // 2:
                        with open(fn, 'w') as fh:
                            json.dump(dict(bucket=key, message=out.violation,
                                detail=out.detail, case=case), fh, indent=1, default=str)
                    return
                if out.violation:
                    state['failed'] = True
                    record_failure(case, out, 'generated')
                    raise AssertionError(out.violation)
            flaky = False
            try:
                run()
            except AssertionError:
                pass
            except hypothesis.errors.Flaky:
                # the case failed once and passed when Hypothesis ran it again: the verdict is
                # not a function of the input (machine load, timing); never a violation
                flaky = True
                stats.inconclusive['verdict_not_reproducible'] += 1
                if fail_path.exists():
                    fail_path.unlink()
            if fail_path.exists() and not flaky:
                stats.violations.append(json.loads(fail_path.read_text()))
    except BaseException as e:     # pylint: disable=broad-except
        stats.errors.append(f'{type(e).__name__}: {e}\n' + traceback.format_exc()[-3000:])
    stats.dump(result_path)


def run_pinned(mod, ctx):
    """ pinned replays: regress-*.json must pass; known-*.json are witnesses
    of open findings. Returns (violations, known_lines, notes, count) """
    opened, fixed = load_known_findings(mod.ID)
    open_by_id = {x['id']: x for x in opened}
    open_ids = set(open_by_id)
    violations, known_lines, notes = [], [], []
    n = 0
    rdir = VERIF/'replays'/mod.ID
    for path in sorted(glob.glob(str(rdir/'regress-*.json'))):
        data = json.loads(Path(path).read_text())
        out = _eval(mod, data['case'], ctx, open_ids)
        n += 1
        if out.violation is None and out.known:
            # a regression input of a repaired defect has zero tolerance: it must not even
            # show a discrepancy that would be counted under an open finding
            out.fail(f'regression input {os.path.basename(path)} shows a discrepancy again '
                f'(classified as {out.known[0]}): {out.detail}', 'regress:' + out.known[0])
        if out.violation:
            violations.append(dict(bucket=out.bucket, msg=out.violation, case=data['case'],
                detail=out.detail, source='pinned:' + os.path.basename(path), path=path))
    for finding in opened:
        rp = finding.get('replay')
        if isinstance(rp, dict):
            rp = rp.get(mod.ID)
        reproduced = None
        if rp:
            data = json.loads((VERIF/rp).read_text())
            out = mod.prop(data['case'], ctx)
            n += 1
            reproduced = finding['id'] in out.known
            if out.violation:
                violations.append(dict(bucket=out.bucket, msg=out.violation,
                    case=data['case'], detail=out.detail, source='pinned:' + rp,
                    path=str(VERIF/rp)))
        if reproduced is False:
            notes.append(f"note: known finding {finding['id']} no longer reproduces on its "
                'pinned replay')
        else:
            known_lines.append(f"KNOWN-FINDING: property={mod.ID} {finding['id']} "
                f"{finding['what_fails']}")
    return violations, known_lines, notes, n


def run_check(prop_id:str, tier:str) -> int:
    # pylint: disable=too-many-locals,too-many-branches,too-many-statements
    t0 = time.time()
    seed = int(os.environ.get('VERIF_SEED', '1') or '1')
    mod_name = f'vf.checks.{prop_id.lower()}'
    try:
        mod = importlib.import_module(mod_name)
    except Exception:     # pylint: disable=broad-except
        traceback.print_exc()
        print(f'HARNESS-ERROR property={prop_id}: cannot import check module')
        return 2
    rundir = Path(tempfile.mkdtemp(prefix=f'vf-{prop_id}-'))
    evidence_path = VERIF/'evidence'/(f'{prop_id}.json' if not os.environ.get('VERIF_REPO')
        else f'{prop_id}.scratch.json')
    evidence_path.parent.mkdir(exist_ok=True)
    try:
        if hasattr(mod, 'setup'):
            mod.setup(tier)
        wall = getattr(mod, 'WALL', {'quick': 600, 'thorough': 3 * 3600})[tier]
        deadline = t0 + wall
        shrink_budget = {'quick': 45, 'thorough': 300}[tier]
        nshards = getattr(mod, 'SHARDS', NSHARDS)

        ctx = Ctx(rundir/'pinned', tier)
        ctx.workdir.mkdir(parents=True)
        pinned_viol, known_lines, notes, n_pinned = run_pinned(mod, ctx)
        caps = {x['id']: x['max_hits_per_run'][tier] for x in load_known_findings(prop_id)[0]
            if 'max_hits_per_run' in x}
        CAPPED.update(caps)

        mpctx = mp.get_context('fork')
        procs = []
        for k in range(nshards):
            p = mpctx.Process(target=_shard_main,
                args=(mod_name, tier, seed, k, nshards, str(rundir), deadline))
            p.start()
            procs.append(p)
        fail_seen = {}
        killed = set()
        while any(p.is_alive() for p in procs):
            time.sleep(0.25)
            now = time.time()
            for k, p in enumerate(procs):
                if not p.is_alive():
                    continue
                fp = rundir/f'shard-{k}.fail.json'
                if fp.exists():
                    fail_seen.setdefault(k, now)
                    if now - fail_seen[k] > shrink_budget:
                        p.terminate()
                        killed.add(k)
                if now > deadline + 120:
                    p.terminate()
                    killed.add(k)
        for p in procs:
            p.join()

        total = ShardStats()
        harness_errors = []
        violations = list(pinned_viol)
        for k in range(nshards):
            rp = rundir/f'shard-{k}.json'
            fp = rundir/f'shard-{k}.fail.json'
            cp = rundir/f'shard-{k}.ckpt.json'
            if not rp.exists() and not fp.exists() and cp.exists() and k in killed:
                # stopped at the wall-clock limit in the middle of a slow case: everything up
                # to the last checkpoint counts, the case in flight is inconclusive
                rp = cp
                total.inconclusive['shard_stopped_at_wall_clock_limit'] += 1
            if rp.exists():
                data = json.loads(rp.read_text())
                total.evaluations += data['evaluations']
                total.nontrivial.update(data['nontrivial'])
                total.labels.update(data['labels'])
                total.known.update(data['known'])
                total.inconclusive.update(data['inconclusive'])
                total.samples.extend(data['samples'])
                total.skipped_budget += data['skipped_budget']
                total.exhaustive_done += data['exhaustive_done']
                violations.extend(data['violations'])
                harness_errors.extend(data['errors'])
                total.capped_cases.extend(data.get('capped_cases', []))
            elif fp.exists():
                violations.append(json.loads(fp.read_text()))
                total.inconclusive['shard_killed_while_shrinking'] += 1
            else:
                harness_errors.append(f'shard {k} produced no result'
                    + (' (killed at wall-clock limit)' if k in killed else ''))

        # rate-capped open findings: more hits than the cap is a violation
        for fid, cap in caps.items():
            if total.known.get(fid, 0) > cap:
                cases = [c for c in total.capped_cases if c['finding'] == fid]
                cases.sort(key=lambda c: len(canon(c['case'])))
                for c in cases[:3]:
                    violations.append(dict(bucket=f'over-cap:{fid}:{case_hash(c["case"])}',
                        msg=f'{total.known[fid]} discrepancies of the rate-capped open finding '
                        f'{fid} in one run (cap {cap}): {c.get("note")}', case=c['case'],
                        detail=c.get('note'), source='cap'))
        # de-duplicate violations by bucket, keep the smallest case of each
        by_bucket = {}
        for v in violations:
            key = v.get('bucket') or v.get('msg', '')[:60]
            cur = by_bucket.get(key)
            if cur is None or len(canon(v['case'])) < len(canon(cur['case'])):
                by_bucket[key] = v
        vio_lines = []
        rdir = VERIF/'replays'/prop_id
        for i, (key, v) in enumerate(sorted(by_bucket.items())):
            if v.get('path'):
                path = v['path']
            else:
                rdir.mkdir(parents=True, exist_ok=True)
                # runs against a scratch worktree (seeded changes) keep their files apart
                prefix = 'scratch-violation' if os.environ.get('VERIF_REPO') else 'violation'
                path = str(rdir/f'{prefix}-{tier}-s{seed}-{i}.json')
                with open(path, 'w') as fh:
                    json.dump(dict(property=prop_id, bucket=key, message=v.get('msg'),
                        detail=v.get('detail'), source=v.get('source'), seed=seed,
                        tier=tier, case=v['case']), fh, indent=1, default=str)
            vio_lines.append(f'VIOLATION property={prop_id} replay={path}')
            print(f"  violation[{key}]: {str(v.get('msg'))[:400]}")

        exhaustive = bool(getattr(mod, 'EXHAUSTIVE', {}).get(tier, False)) \
            and total.skipped_budget == 0 and not killed
        samples = total.samples[:5]
        coverage = dict(
            evaluations=total.evaluations + n_pinned,
            distinct_nontrivial=len(total.nontrivial),
            rule=mod.RULE,
            samples=samples if samples else ['(no non-trivial case in this run)'],
            classes=dict(sorted(total.labels.items())),
            known_findings_hit=dict(total.known),
            inconclusive=dict(total.inconclusive),
            skipped_over_wall_budget=total.skipped_budget,
            enumerated_cases=total.exhaustive_done,
            pinned_replays=n_pinned,
            shards=nshards,
            exhaustive=exhaustive,
        )
        if hasattr(mod, 'EXHAUSTIVE_NOTE'):
            coverage['exhaustive_subdomain'] = mod.EXHAUSTIVE_NOTE.get(tier, '')
        evidence = dict(property_id=prop_id, tier=tier, seed=seed, level=mod.LEVEL,
            coverage=coverage, assumptions=list(mod.ASSUMPTIONS),
            wall_s=round(time.time() - t0, 2), violations=len(vio_lines))
        with open(evidence_path, 'w') as fh:
            json.dump(evidence, fh, indent=1, default=str)

        print(f'{prop_id} tier={tier} seed={seed}: evaluations={coverage["evaluations"]} '
            f'distinct_nontrivial={coverage["distinct_nontrivial"]} '
            f'known_hits={sum(total.known.values())} '
            f'inconclusive={sum(total.inconclusive.values())} '
            f'skipped_budget={total.skipped_budget} wall={evidence["wall_s"]}s')
        top = ', '.join(f'{k}={v}' for k, v in sorted(total.labels.items())[:40])
        if top:
            print(f'  classes: {top}')
        for line in notes:
            print(line)
        for line in known_lines:
            print(line)
        if harness_errors and not vio_lines:
            for e in harness_errors[:3]:
                print('HARNESS-ERROR', e)
            return 2
        if vio_lines:
            for line in vio_lines:
                print(line)
            return 1
        if len(total.nontrivial) < 2:
            print(f'HARNESS-ERROR property={prop_id}: fewer than 2 non-trivial cases')
            return 2
        return 0
    except Exception:     # pylint: disable=broad-except
        traceback.print_exc()
        print(f'HARNESS-ERROR property={prop_id}')
        return 2
    finally:
        shutil.rmtree(rundir, ignore_errors=True)


def run_replay(prop_id:str, path:str) -> int:
    mod = importlib.import_module(f'vf.checks.{prop_id.lower()}')
    data = json.loads(Path(path).read_text())
    case = data['case'] if 'case' in data else data
    rundir = Path(tempfile.mkdtemp(prefix=f'vf-replay-{prop_id}-'))
    try:
        if hasattr(mod, 'setup'):
            mod.setup('quick')
        opened, _ = load_known_findings(prop_id)
        out = _eval(mod, case, Ctx(rundir, 'quick'), {x['id'] for x in opened})
        print(json.dumps(dict(nontrivial=out.nontrivial, labels=out.labels, known=out.known,
            inconclusive=out.inconclusive, violation=out.violation, detail=out.detail),
            indent=1, default=str))
        for k in out.known:
            print(f'KNOWN-FINDING: property={prop_id} {k}')
        if out.violation:
            print(f'VIOLATION property={prop_id} replay={path}')
            return 1
        return 0
    finally:
        shutil.rmtree(rundir, ignore_errors=True)
